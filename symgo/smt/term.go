// Package smt is a small SMT-LIB2 term builder and solver-process driver used by symgo.
package smt

import (
	"fmt"
	"math/big"
	"strings"
)

type SortKind int

const (
	KBool SortKind = iota
	KBV
	KFP
	KInt
)

type Sort struct {
	K SortKind
	W int // BV width; FP: 32 or 64
}

var (
	Bool  = Sort{KBool, 0}
	Int   = Sort{KInt, 0}
	FP64  = Sort{KFP, 64}
	FP32  = Sort{KFP, 32}
	BV64  = Sort{KBV, 64}
	BV8   = Sort{KBV, 8}
	BV32  = Sort{KBV, 32}
	BV128 = Sort{KBV, 128}
)

func BV(w int) Sort { return Sort{KBV, w} }

func (s Sort) String() string {
	switch s.K {
	case KBool:
		return "Bool"
	case KInt:
		return "Int"
	case KBV:
		return fmt.Sprintf("(_ BitVec %d)", s.W)
	case KFP:
		if s.W == 32 {
			return "(_ FloatingPoint 8 24)"
		}
		return "(_ FloatingPoint 11 53)"
	}
	return "?"
}

var nextID int

// Term is an SMT term. Non-leaf terms are emitted to the solver as (define-fun tN () S (op args...)) so
// that sharing is preserved.
type Term struct {
	ID   int
	Sort Sort
	Op   string  // "" for leaf
	Args []*Term // operands
	Lit  string  // leaf text: literal or declared symbol
	// constant info (only for BV width<=64 and Bool leaves)
	IsConst bool
	CVal    uint64
	IsVar   bool
}

func newTerm(s Sort) *Term {
	nextID++
	return &Term{ID: nextID, Sort: s}
}

func ResetIDs() { nextID = 0 }

func Var(name string, s Sort) *Term {
	t := newTerm(s)
	t.Lit = name
	t.IsVar = true
	return t
}

func mask(w int) uint64 {
	if w >= 64 {
		return ^uint64(0)
	}
	return (uint64(1) << uint(w)) - 1
}

func BVConst(v uint64, w int) *Term {
	t := newTerm(BV(w))
	if w <= 64 {
		v &= mask(w)
		t.IsConst = true
		t.CVal = v
		if w%4 == 0 {
			t.Lit = fmt.Sprintf("#x%0*x", w/4, v)
		} else {
			t.Lit = fmt.Sprintf("#b%0*b", w, v)
		}
	} else {
		// wide constant from a 64-bit unsigned value
		t.Lit = fmt.Sprintf("(_ bv%d %d)", v, w)
	}
	return t
}

func BVConstBig(v *big.Int, w int) *Term {
	t := newTerm(BV(w))
	m := new(big.Int).Lsh(big.NewInt(1), uint(w))
	x := new(big.Int).Mod(v, m)
	t.Lit = fmt.Sprintf("(_ bv%s %d)", x.String(), w)
	return t
}

func IntConst(v *big.Int) *Term {
	t := newTerm(Int)
	if v.Sign() < 0 {
		t.Lit = "(- " + new(big.Int).Neg(v).String() + ")"
	} else {
		t.Lit = v.String()
	}
	return t
}

func IntConst64(v int64) *Term { return IntConst(big.NewInt(v)) }

var (
	trueT  *Term
	falseT *Term
)

func True() *Term {
	t := newTerm(Bool)
	t.Lit = "true"
	t.IsConst = true
	t.CVal = 1
	return t
}
func False() *Term {
	t := newTerm(Bool)
	t.Lit = "false"
	t.IsConst = true
	return t
}
func BoolConst(b bool) *Term {
	if b {
		return True()
	}
	return False()
}

// Raw leaf of given sort (e.g. FP literal text).
func Raw(text string, s Sort) *Term {
	t := newTerm(s)
	t.Lit = text
	return t
}

func App(s Sort, op string, args ...*Term) *Term {
	t := newTerm(s)
	t.Op = op
	t.Args = args
	return t
}

// ---- boolean ----

func Not(a *Term) *Term {
	if a.IsConst {
		return BoolConst(a.CVal == 0)
	}
	if a.Op == "not" {
		return a.Args[0]
	}
	return App(Bool, "not", a)
}
func And(a, b *Term) *Term {
	if a.IsConst {
		if a.CVal == 0 {
			return a
		}
		return b
	}
	if b.IsConst {
		if b.CVal == 0 {
			return b
		}
		return a
	}
	return App(Bool, "and", a, b)
}
func Or(a, b *Term) *Term {
	if a.IsConst {
		if a.CVal != 0 {
			return a
		}
		return b
	}
	if b.IsConst {
		if b.CVal != 0 {
			return b
		}
		return a
	}
	return App(Bool, "or", a, b)
}
func Implies(a, b *Term) *Term { return Or(Not(a), b) }
func Eq(a, b *Term) *Term {
	if a == b && a.Sort.K != KFP {
		return True()
	}
	if a.IsConst && b.IsConst {
		return BoolConst(a.CVal == b.CVal)
	}
	return App(Bool, "=", a, b)
}
func Ite(c, a, b *Term) *Term {
	if c.IsConst {
		if c.CVal != 0 {
			return a
		}
		return b
	}
	if a == b {
		return a
	}
	return App(a.Sort, "ite", c, a, b)
}

// ---- bit-vectors ----

func bv2(op string, a, b *Term) *Term { return App(a.Sort, op, a, b) }
func BVAdd(a, b *Term) *Term          { return bv2("bvadd", a, b) }
func BVSub(a, b *Term) *Term          { return bv2("bvsub", a, b) }
func BVMul(a, b *Term) *Term          { return bv2("bvmul", a, b) }
func BVSDiv(a, b *Term) *Term         { return bv2("bvsdiv", a, b) }
func BVUDiv(a, b *Term) *Term         { return bv2("bvudiv", a, b) }
func BVSRem(a, b *Term) *Term         { return bv2("bvsrem", a, b) }
func BVURem(a, b *Term) *Term         { return bv2("bvurem", a, b) }
func BVAnd(a, b *Term) *Term          { return bv2("bvand", a, b) }
func BVOr(a, b *Term) *Term           { return bv2("bvor", a, b) }
func BVXor(a, b *Term) *Term          { return bv2("bvxor", a, b) }
func BVShl(a, b *Term) *Term          { return bv2("bvshl", a, b) }
func BVLshr(a, b *Term) *Term         { return bv2("bvlshr", a, b) }
func BVAshr(a, b *Term) *Term         { return bv2("bvashr", a, b) }
func BVNot(a *Term) *Term             { return App(a.Sort, "bvnot", a) }
func BVNeg(a *Term) *Term             { return App(a.Sort, "bvneg", a) }

func cmp(op string, a, b *Term) *Term { return App(Bool, op, a, b) }
func BVSlt(a, b *Term) *Term          { return cmp("bvslt", a, b) }
func BVSle(a, b *Term) *Term          { return cmp("bvsle", a, b) }
func BVSgt(a, b *Term) *Term          { return cmp("bvsgt", a, b) }
func BVSge(a, b *Term) *Term          { return cmp("bvsge", a, b) }
func BVUlt(a, b *Term) *Term          { return cmp("bvult", a, b) }
func BVUle(a, b *Term) *Term          { return cmp("bvule", a, b) }
func BVUgt(a, b *Term) *Term          { return cmp("bvugt", a, b) }
func BVUge(a, b *Term) *Term          { return cmp("bvuge", a, b) }

func Extract(hi, lo int, a *Term) *Term {
	if a.IsConst && a.Sort.W <= 64 {
		return BVConst(a.CVal>>uint(lo), hi-lo+1)
	}
	return App(BV(hi-lo+1), fmt.Sprintf("(_ extract %d %d)", hi, lo), a)
}
func SignExt(n int, a *Term) *Term {
	if n == 0 {
		return a
	}
	return App(BV(a.Sort.W+n), fmt.Sprintf("(_ sign_extend %d)", n), a)
}
func ZeroExt(n int, a *Term) *Term {
	if n == 0 {
		return a
	}
	return App(BV(a.Sort.W+n), fmt.Sprintf("(_ zero_extend %d)", n), a)
}
func Concat(a, b *Term) *Term { return App(BV(a.Sort.W+b.Sort.W), "concat", a, b) }

// Resize converts BV a to width w, sign- or zero-extending.
func Resize(a *Term, w int, signed bool) *Term {
	switch {
	case a.Sort.W == w:
		return a
	case a.Sort.W > w:
		return Extract(w-1, 0, a)
	case signed:
		return SignExt(w-a.Sort.W, a)
	default:
		return ZeroExt(w-a.Sort.W, a)
	}
}

// ---- floating point ----

const RNE = "RNE"

func fpSort(w int) Sort {
	if w == 32 {
		return FP32
	}
	return FP64
}
func fpToFP(w int) string {
	if w == 32 {
		return "(_ to_fp 8 24)"
	}
	return "(_ to_fp 11 53)"
}
func fpToFPU(w int) string {
	if w == 32 {
		return "(_ to_fp_unsigned 8 24)"
	}
	return "(_ to_fp_unsigned 11 53)"
}

var rmCache = map[string]*Term{}

func RM(mode string) *Term { return Raw(mode, Sort{KBool, -1}) }

func FPFromBits(bits *Term) *Term { return App(fpSort(bits.Sort.W), fpToFP(bits.Sort.W), bits) }
func FPConst64(bits uint64) *Term { return FPFromBits(BVConst(bits, 64)) }
func FPConst32(bits uint32) *Term { return FPFromBits(BVConst(uint64(bits), 32)) }
func FPAdd(a, b *Term) *Term      { return App(a.Sort, "fp.add", RM("RNE"), a, b) }
func FPSub(a, b *Term) *Term      { return App(a.Sort, "fp.sub", RM("RNE"), a, b) }
func FPMul(a, b *Term) *Term      { return App(a.Sort, "fp.mul", RM("RNE"), a, b) }
func FPDiv(a, b *Term) *Term      { return App(a.Sort, "fp.div", RM("RNE"), a, b) }
func FPSqrt(a *Term) *Term        { return App(a.Sort, "fp.sqrt", RM("RNE"), a) }
func FPNeg(a *Term) *Term         { return App(a.Sort, "fp.neg", a) }
func FPAbs(a *Term) *Term         { return App(a.Sort, "fp.abs", a) }
func FPRound(mode string, a *Term) *Term {
	return App(a.Sort, "fp.roundToIntegral", RM(mode), a)
}
func FPEq(a, b *Term) *Term  { return cmp("fp.eq", a, b) }
func FPLt(a, b *Term) *Term  { return cmp("fp.lt", a, b) }
func FPLeq(a, b *Term) *Term { return cmp("fp.leq", a, b) }
func FPGt(a, b *Term) *Term  { return cmp("fp.gt", a, b) }
func FPGeq(a, b *Term) *Term { return cmp("fp.geq", a, b) }
func FPIsNaN(a *Term) *Term  { return App(Bool, "fp.isNaN", a) }
func FPIsInf(a *Term) *Term  { return App(Bool, "fp.isInfinite", a) }
func FPIsZero(a *Term) *Term { return App(Bool, "fp.isZero", a) }
func FPIsNeg(a *Term) *Term  { return App(Bool, "fp.isNegative", a) }

// FPFromSBV converts a signed BV to FP of width w (RNE).
func FPFromSBV(a *Term, w int) *Term { return App(fpSort(w), fpToFP(w), RM("RNE"), a) }
func FPFromUBV(a *Term, w int) *Term { return App(fpSort(w), fpToFPU(w), RM("RNE"), a) }

// FPToFP converts between FP widths (RNE).
func FPToFP(a *Term, w int) *Term {
	if a.Sort.W == w {
		return a
	}
	return App(fpSort(w), fpToFP(w), RM("RNE"), a)
}
func FPToSBV(a *Term, w int) *Term {
	return App(BV(w), fmt.Sprintf("(_ fp.to_sbv %d)", w), RM("RTZ"), a)
}
func FPToUBV(a *Term, w int) *Term {
	return App(BV(w), fmt.Sprintf("(_ fp.to_ubv %d)", w), RM("RTZ"), a)
}

// ---- integers (Int mode) ----

func IAdd(a, b *Term) *Term { return App(Int, "+", a, b) }
func ISub(a, b *Term) *Term { return App(Int, "-", a, b) }
func IMul(a, b *Term) *Term { return App(Int, "*", a, b) }
func INeg(a *Term) *Term    { return App(Int, "-", a) }
func IDivE(a, b *Term) *Term { // SMT-LIB euclidean div
	return App(Int, "div", a, b)
}
func IModE(a, b *Term) *Term { return App(Int, "mod", a, b) }
func ILt(a, b *Term) *Term   { return cmp("<", a, b) }
func ILe(a, b *Term) *Term   { return cmp("<=", a, b) }
func IGt(a, b *Term) *Term   { return cmp(">", a, b) }
func IGe(a, b *Term) *Term   { return cmp(">=", a, b) }
func IAbs(a *Term) *Term     { return Ite(ILt(a, IntConst64(0)), INeg(a), a) }

// ITruncDiv is Go's truncated division on mathematical integers (b != 0 assumed).
func ITruncDiv(a, b *Term) *Term {
	q := IDivE(IAbs(a), IAbs(b))
	neg := Not(Eq(ILt(a, IntConst64(0)), ILt(b, IntConst64(0))))
	return Ite(neg, INeg(q), q)
}

// IFloorDiv is floor(a/b) on mathematical integers (b != 0 assumed).
func IFloorDiv(a, b *Term) *Term {
	// euclidean: a = b*q + r, 0<=r<|b|. floor div: if b>0 q_e ; if b<0: q_e if r==0 else q_e-1 ... use definition via trunc
	q := ITruncDiv(a, b)
	r := ISub(a, IMul(q, b))
	adj := And(Not(Eq(r, IntConst64(0))), Not(Eq(ILt(r, IntConst64(0)), ILt(b, IntConst64(0)))))
	return Ite(adj, ISub(q, IntConst64(1)), q)
}

// IWrap wraps a mathematical integer into the signed/unsigned range of width w.
func IWrap(a *Term, w int, signed bool) *Term {
	m := new(big.Int).Lsh(big.NewInt(1), uint(w))
	if !signed {
		return IModE(a, IntConst(m))
	}
	h := new(big.Int).Lsh(big.NewInt(1), uint(w-1))
	return ISub(IModE(IAdd(a, IntConst(h)), IntConst(m)), IntConst(h))
}

// ---- printing ----

func (t *Term) name() string {
	if t.Op == "" {
		return t.Lit
	}
	return fmt.Sprintf("t%d", t.ID)
}

// Expr returns a fully expanded s-expression (for debugging / samples); may be large.
func (t *Term) Expr(maxDepth int) string {
	if t.Op == "" {
		return t.Lit
	}
	if maxDepth <= 0 {
		return "…"
	}
	var sb strings.Builder
	sb.WriteString("(")
	sb.WriteString(t.Op)
	for _, a := range t.Args {
		sb.WriteString(" ")
		sb.WriteString(a.Expr(maxDepth - 1))
	}
	sb.WriteString(")")
	return sb.String()
}

package smt

import (
	"bufio"
	"fmt"
	"io"
	"math/big"
	"os"
	"os/exec"
	"strings"
	"time"
)

type Result int

const (
	Unsat Result = iota
	Sat
	Unknown
)

func (r Result) String() string {
	switch r {
	case Unsat:
		return "unsat"
	case Sat:
		return "sat"
	}
	return "unknown"
}

// Stats collected per solver.
type Stats struct {
	Queries  int
	Sat      int
	Unsat    int
	Unknown  int
	Errors   int
	SolverNS int64
}

// proc is one live solver process.
type proc struct {
	name      string
	cmd       *exec.Cmd
	in        *bufio.Writer
	out       *bufio.Reader
	synced    int // number of script lines already sent in the current scope
	timeoutMS int
	dead      bool
	started   bool
}

// Solver is a portfolio session: a script of declarations/definitions/assertions for the current path that is
// fed to one or more solver processes. The first process answers; on unknown the next one is consulted.
type Solver struct {
	Name      string
	procs     []*proc
	script    []string
	defined   map[int]bool
	declared  []*Term
	Stats     Stats
	ByProc    map[string]*Stats
	TimeoutMS int
	Log       io.Writer
	LastErr   string
	lastSat   *proc
}

// NewSolver creates a portfolio from a comma separated list such as "z3-new:10000,cvc5:120000".
// A bare name uses timeoutMS.
func NewSolver(spec string, timeoutMS int) (*Solver, error) {
	s := &Solver{Name: spec, defined: map[int]bool{}, TimeoutMS: timeoutMS, ByProc: map[string]*Stats{}}
	for _, part := range strings.Split(spec, ",") {
		name, to := part, timeoutMS
		if i := strings.IndexByte(part, ':'); i >= 0 {
			name = part[:i]
			fmt.Sscan(part[i+1:], &to)
		}
		switch name {
		case "z3", "z3-new", "cvc5":
		default:
			return nil, fmt.Errorf("unknown solver %q", name)
		}
		s.procs = append(s.procs, &proc{name: name, timeoutMS: to})
		s.ByProc[name] = &Stats{}
	}
	return s, nil
}

func (p *proc) start() error {
	var cmd *exec.Cmd
	switch p.name {
	case "z3":
		cmd = exec.Command("z3", "-in", "-smt2")
	case "z3-new":
		cmd = exec.Command("z3-new", "-in", "-smt2")
	case "cvc5":
		cmd = exec.Command("cvc5", "--incremental", "--lang=smt2", "--produce-models", "--nl-ext-tplanes",
			fmt.Sprintf("--tlimit-per=%d", p.timeoutMS))
	}
	stdin, err := cmd.StdinPipe()
	if err != nil {
		return err
	}
	stdout, err := cmd.StdoutPipe()
	if err != nil {
		return err
	}
	cmd.Stderr = os.Stderr
	if err := cmd.Start(); err != nil {
		return err
	}
	p.cmd = cmd
	p.in = bufio.NewWriterSize(stdin, 1<<16)
	p.out = bufio.NewReaderSize(stdout, 1<<16)
	if p.name == "cvc5" {
		p.sendRaw("(set-logic ALL)")
	} else {
		p.sendRaw("(set-option :produce-models true)")
		p.sendRaw(fmt.Sprintf("(set-option :timeout %d)", p.timeoutMS))
	}
	p.sendRaw("(push 1)")
	p.started = true
	p.synced = 0
	return nil
}

func (p *proc) sendRaw(line string) {
	p.in.WriteString(line)
	p.in.WriteByte('\n')
}

func (p *proc) kill() {
	if p.cmd != nil && p.cmd.Process != nil {
		p.cmd.Process.Kill()
		p.cmd.Wait()
	}
	p.started = false
	p.cmd = nil
}

func (s *Solver) Close() {
	for _, p := range s.procs {
		p.kill()
	}
}

func (s *Solver) send(line string) {
	if s.Log != nil {
		fmt.Fprintln(s.Log, line)
	}
	s.script = append(s.script, line)
}

// Reset drops everything asserted/defined since the last Reset.
func (s *Solver) Reset() {
	if s.Log != nil {
		fmt.Fprintln(s.Log, "(pop 1)\n(push 1)")
	}
	for _, p := range s.procs {
		if p.started && p.synced > 0 {
			p.sendRaw("(pop 1)")
			p.sendRaw("(push 1)")
		}
		p.synced = 0
	}
	s.script = s.script[:0]
	s.defined = map[int]bool{}
	s.declared = nil
	s.lastSat = nil
}

// ref makes sure t (and its operands) are defined in the script and returns its name.
func (s *Solver) ref(t *Term) string {
	if t.Op == "" {
		if t.IsVar && !s.defined[t.ID] {
			s.defined[t.ID] = true
			s.declared = append(s.declared, t)
			s.send(fmt.Sprintf("(declare-const %s %s)", t.Lit, t.Sort))
		}
		return t.Lit
	}
	name := t.name()
	if s.defined[t.ID] {
		return name
	}
	names := make([]string, len(t.Args))
	for i, a := range t.Args {
		names[i] = s.ref(a)
	}
	s.defined[t.ID] = true
	s.send(fmt.Sprintf("(define-fun %s () %s (%s %s))", name, t.Sort, t.Op, strings.Join(names, " ")))
	return name
}

func (s *Solver) Assert(t *Term) {
	n := s.ref(t)
	s.send("(assert " + n + ")")
}

// Declare makes sure a variable is declared (so it appears in models).
func (s *Solver) Declare(v *Term) { s.ref(v) }

func (p *proc) readLine(log io.Writer) (string, error) {
	for {
		line, err := p.out.ReadString('\n')
		if err != nil {
			return "", err
		}
		line = strings.TrimSpace(line)
		if line == "" {
			continue
		}
		if log != nil {
			fmt.Fprintln(log, "; <- ["+p.name+"] "+line)
		}
		return line, nil
	}
}

// Check runs check-sat under the extra assumptions (terms of sort Bool) on the portfolio.
func (s *Solver) Check(assumps ...*Term) Result {
	names := make([]string, len(assumps))
	for i, a := range assumps {
		names[i] = s.ref(a)
	}
	q := "(check-sat)"
	if len(names) > 0 {
		q = "(check-sat-assuming (" + strings.Join(names, " ") + "))"
	}
	if s.Log != nil {
		fmt.Fprintln(s.Log, q)
	}
	s.Stats.Queries++
	s.lastSat = nil
	sawError := false
	for _, p := range s.procs {
		if p.dead {
			continue
		}
		if !p.started {
			if err := p.start(); err != nil {
				p.dead = true
				s.LastErr = err.Error()
				continue
			}
		}
		for ; p.synced < len(s.script); p.synced++ {
			p.sendRaw(s.script[p.synced])
		}
		p.sendRaw(q)
		t0 := time.Now()
		p.in.Flush()
		line, err := p.readLine(s.Log)
		ns := int64(time.Since(t0))
		s.Stats.SolverNS += ns
		ps := s.ByProc[p.name]
		ps.Queries++
		ps.SolverNS += ns
		if err != nil {
			// process died: restart lazily on the next query (script is resent)
			p.kill()
			s.LastErr = p.name + " died: " + err.Error()
			ps.Errors++
			sawError = true
			continue
		}
		switch line {
		case "sat":
			s.Stats.Sat++
			ps.Sat++
			s.lastSat = p
			return Sat
		case "unsat":
			s.Stats.Unsat++
			ps.Unsat++
			return Unsat
		case "unknown", "timeout":
			ps.Unknown++
			s.LastErr = p.name + ": " + line
			continue
		}
		// anything else (e.g. "(error ...") is inconclusive for this process
		ps.Errors++
		sawError = true
		s.LastErr = p.name + ": " + line
		// resynchronise: kill the process so that stray output cannot be misread later
		p.kill()
	}
	if sawError {
		s.Stats.Errors++
	}
	s.Stats.Unknown++
	return Unknown
}

// Model value of a variable: either big.Int (BV as unsigned, Int) or bool.
type Model map[string]*big.Int

// GetModel asks the values of all variables declared in this scope. Must follow a Sat Check with
// the same assumptions still in force (check-sat-assuming models are valid until next command).
func (s *Solver) GetModel() (Model, error) {
	m := Model{}
	if len(s.declared) == 0 {
		return m, nil
	}
	var names []string
	for _, v := range s.declared {
		names = append(names, v.Lit)
	}
	p := s.lastSat
	if p == nil {
		return nil, fmt.Errorf("no sat answer to take a model from")
	}
	p.sendRaw("(get-value (" + strings.Join(names, " ") + "))")
	p.in.Flush()
	sexp, err := s.readSexp(p)
	if err != nil {
		return nil, err
	}
	// sexp: ((name val) (name val) ...)
	toks := tokenize(sexp)
	ps := &parser{toks: toks}
	lst := ps.parse()
	for _, pair := range lst.list {
		if len(pair.list) != 2 {
			continue
		}
		name := pair.list[0].atom
		v := evalValue(pair.list[1])
		if v != nil {
			m[name] = v
		}
	}
	return m, nil
}

func (s *Solver) readSexp(p *proc) (string, error) {
	var sb strings.Builder
	depth := 0
	started := false
	for {
		line, err := p.out.ReadString('\n')
		if err != nil {
			return "", err
		}
		if s.Log != nil {
			fmt.Fprint(s.Log, "; <- "+line)
		}
		for _, c := range line {
			if c == '(' {
				depth++
				started = true
			} else if c == ')' {
				depth--
			}
		}
		sb.WriteString(line)
		if started && depth <= 0 {
			break
		}
	}
	out := sb.String()
	if strings.Contains(out, "(error") {
		return "", fmt.Errorf("solver error: %s", out)
	}
	return out, nil
}

type node struct {
	atom string
	list []*node
	isL  bool
}

func tokenize(s string) []string {
	var toks []string
	i := 0
	for i < len(s) {
		c := s[i]
		switch {
		case c == '(' || c == ')':
			toks = append(toks, string(c))
			i++
		case c == ' ' || c == '\n' || c == '\t' || c == '\r':
			i++
		case c == '|':
			j := i + 1
			for j < len(s) && s[j] != '|' {
				j++
			}
			toks = append(toks, s[i:j+1])
			i = j + 1
		default:
			j := i
			for j < len(s) && !strings.ContainsRune("() \n\t\r", rune(s[j])) {
				j++
			}
			toks = append(toks, s[i:j])
			i = j
		}
	}
	return toks
}

type parser struct {
	toks []string
	pos  int
}

func (p *parser) parse() *node {
	if p.pos >= len(p.toks) {
		return &node{}
	}
	t := p.toks[p.pos]
	p.pos++
	if t == "(" {
		n := &node{isL: true}
		for p.pos < len(p.toks) && p.toks[p.pos] != ")" {
			n.list = append(n.list, p.parse())
		}
		p.pos++
		return n
	}
	return &node{atom: t}
}

func evalValue(n *node) *big.Int {
	if !n.isL {
		a := n.atom
		switch {
		case a == "true":
			return big.NewInt(1)
		case a == "false":
			return big.NewInt(0)
		case strings.HasPrefix(a, "#x"):
			v, ok := new(big.Int).SetString(a[2:], 16)
			if ok {
				return v
			}
		case strings.HasPrefix(a, "#b"):
			v, ok := new(big.Int).SetString(a[2:], 2)
			if ok {
				return v
			}
		default:
			v, ok := new(big.Int).SetString(a, 10)
			if ok {
				return v
			}
		}
		return nil
	}
	// (- 5) or (_ bv5 64)
	if len(n.list) == 2 && n.list[0].atom == "-" {
		v := evalValue(n.list[1])
		if v != nil {
			return new(big.Int).Neg(v)
		}
	}
	if len(n.list) == 3 && n.list[0].atom == "_" && strings.HasPrefix(n.list[1].atom, "bv") {
		v, ok := new(big.Int).SetString(n.list[1].atom[2:], 10)
		if ok {
			return v
		}
	}
	return nil
}

package main

import (
	"encoding/json"
	"fmt"
	"os"
	"os/exec"
	"path/filepath"
	"strings"
	"time"

	"verif/symgo/interp"
)

type replayer struct {
	dir  string
	bins map[string]string
}

type replayVerdict struct {
	Reproduced bool
	Summary    string
	Raw        string
}

func goEnv() []string {
	return append(os.Environ(), "GOFLAGS=-mod=mod", "GOPROXY=off", "GOSUMDB=off", "GOTOOLCHAIN=local")
}

func newReplayer() (*replayer, error) {
	dir, err := os.MkdirTemp("", "symgo-replay-")
	if err != nil {
		return nil, err
	}
	rp := &replayer{dir: dir, bins: map[string]string{}}
	ov, err := buildOverlay(true)
	if err != nil {
		return nil, err
	}
	repl := map[string]string{}
	i := 0
	for virt, content := range ov {
		i++
		real := filepath.Join(dir, fmt.Sprintf("ov%d_%s", i, filepath.Base(virt)))
		if err := os.WriteFile(real, content, 0o644); err != nil {
			return nil, err
		}
		repl[virt] = real
	}
	b, _ := json.Marshal(map[string]interface{}{"Replace": repl})
	ovPath := filepath.Join(dir, "overlay.json")
	os.WriteFile(ovPath, b, 0o644)
	for _, p := range []string{"engine", "prolog"} {
		files, _ := filepath.Glob(filepath.Join(verifDir, "harness", p, "*.go"))
		if len(files) == 0 {
			continue
		}
		bin := filepath.Join(dir, p+".test")
		cmd := exec.Command("go", "test", "-c", "-vet=off", "-tags", "verif", "-overlay", ovPath, "-o", bin, pkgPath(p))
		cmd.Dir = repoDir
		cmd.Env = goEnv()
		out, err := cmd.CombinedOutput()
		if err != nil {
			return nil, fmt.Errorf("building replay binary for %s: %v\n%s", p, err, out)
		}
		rp.bins[p] = bin
	}
	return rp, nil
}

func (rp *replayer) close() { os.RemoveAll(rp.dir) }

func (rp *replayer) replay(path, pkg string) replayVerdict {
	bin := rp.bins[pkg]
	if bin == "" {
		return replayVerdict{Summary: "no replay binary for " + pkg}
	}
	cmd := exec.Command(bin, "-test.run", "^TestVerifReplay$", "-test.timeout", "60s")
	cmd.Dir = pkgDir(pkg)
	cmd.Env = append(goEnv(), "VERIF_REPLAY="+path, "GOMEMLIMIT=4GiB")
	done := make(chan struct{})
	var out []byte
	var err error
	go func() { out, err = cmd.CombinedOutput(); close(done) }()
	select {
	case <-done:
	case <-time.After(90 * time.Second):
		cmd.Process.Kill()
		<-done
		return replayVerdict{Reproduced: true, Summary: "native run did not finish within 90 s (hang)", Raw: tail(string(out), 2000)}
	}
	s := string(out)
	idx := strings.Index(s, "VERIF-REPLAY-RESULT: ")
	if idx < 0 {
		// the test binary's own deadline: the run did not finish (a hang, not a death)
		if strings.Contains(s, "panic: test timed out after") {
			return replayVerdict{Reproduced: true, Summary: "native run did not finish within 60 s (hang)", Raw: tail(s, 2000)}
		}
		// process died (fatal error, os.Exit, stack overflow)
		if err != nil {
			return replayVerdict{Reproduced: true, Summary: "native process died: " + firstLine(tail(s, 400)), Raw: tail(s, 4000)}
		}
		return replayVerdict{Summary: "no result line", Raw: tail(s, 2000)}
	}
	line := s[idx+len("VERIF-REPLAY-RESULT: "):]
	if nl := strings.IndexByte(line, '\n'); nl >= 0 {
		line = line[:nl]
	}
	var res struct {
		Failures    []string `json:"failures"`
		Panic       string   `json:"panic"`
		AssumeFalse bool     `json:"assume_false"`
	}
	json.Unmarshal([]byte(line), &res)
	switch {
	case res.Panic != "":
		return replayVerdict{Reproduced: true, Summary: "native panic: " + res.Panic, Raw: line}
	case len(res.Failures) > 0:
		return replayVerdict{Reproduced: true, Summary: "native assertion failed: " + strings.Join(res.Failures, "; "), Raw: line}
	case res.AssumeFalse:
		return replayVerdict{Summary: "native run: assumption false (values outside the harness precondition)", Raw: line}
	}
	return replayVerdict{Summary: "native run passed all assertions", Raw: line}
}

func tail(s string, n int) string {
	if len(s) > n {
		return s[len(s)-n:]
	}
	return s
}

func firstLine(s string) string {
	s = strings.TrimSpace(s)
	if i := strings.IndexByte(s, '\n'); i >= 0 {
		return s[:i]
	}
	return s
}

func cmdReplay(args []string) int {
	if len(args) < 1 {
		fmt.Fprintln(os.Stderr, "usage: symgo replay <file>")
		return 2
	}
	b, err := os.ReadFile(args[0])
	if err != nil {
		fmt.Fprintln(os.Stderr, err)
		return 2
	}
	var v interp.Violation
	if err := json.Unmarshal(b, &v); err != nil {
		fmt.Fprintln(os.Stderr, err)
		return 2
	}
	idx, err := loadIndex()
	if err != nil {
		fmt.Fprintln(os.Stderr, err)
		return 2
	}
	pkg := "engine"
	for _, h := range idx.Harnesses {
		if h.Harness == v.Harness {
			pkg = h.Pkg
		}
	}
	rp, err := newReplayer()
	if err != nil {
		fmt.Fprintln(os.Stderr, err)
		return 2
	}
	defer rp.close()
	verdict := rp.replay(args[0], pkg)
	fmt.Printf("harness=%s instance=%d msg=%q\n", v.Harness, v.Instance, v.Msg)
	for _, d := range v.Draws {
		fmt.Printf("  %s (%s) = %s\n", d.Name, d.Kind, d.Val)
	}
	fmt.Println("native:", verdict.Summary)
	if verdict.Reproduced {
		return 1
	}
	if v.Kind == "exec" || schedDependent(v) {
		ok, sum := execConfirm(v, idx.Harnesses)
		fmt.Println("executor re-execution of the recorded path and schedule:", sum)
		if ok {
			return 1
		}
	}
	return 0
}

// cmdSelftest: translator validation. Concrete workloads (harness H_selftest) are run from the SSA by the executor
// and natively from the compiled package; the two transcripts must be identical.
func cmdSelftest(args []string) int {
	idx, err := loadIndex()
	if err != nil {
		fmt.Fprintln(os.Stderr, err)
		return 2
	}
	var spec *HarnessSpec
	for i := range idx.Harnesses {
		if idx.Harnesses[i].Property == "SELFTEST" {
			spec = &idx.Harnesses[i]
		}
	}
	if spec == nil {
		fmt.Fprintln(os.Stderr, "no SELFTEST harness")
		return 2
	}
	rp, err := newReplayer()
	if err != nil {
		fmt.Fprintln(os.Stderr, "replay build failed:", err)
		return 2
	}
	defer rp.close()
	w, err := startWorker()
	if err != nil {
		fmt.Fprintln(os.Stderr, err)
		return 2
	}
	defer w.stop()
	bad := 0
	for inst := 0; inst < spec.Instances; inst++ {
		j := jobFor("SELFTEST", *spec, inst, spec.TimeoutMS, nil)
		j.SliceS = 900
		r, err := w.run(j)
		if err != nil || len(r.Violations) < 1 {
			fmt.Printf("selftest #%d: executor run did not produce a transcript (err=%v ends=%v %s)\n", inst, err, r.Ends, r.Error)
			for _, m := range r.Inconcl {
				fmt.Println("   ", m)
			}
			bad++
			continue
		}
		v := r.Violations[0]
		path := filepath.Join(rp.dir, fmt.Sprintf("selftest_%d.json", inst))
		b, _ := json.Marshal(v)
		os.WriteFile(path, b, 0o644)
		verdict := rp.replay(path, spec.Pkg)
		var res struct {
			Failures []string `json:"failures"`
		}
		json.Unmarshal([]byte(verdict.Raw), &res)
		native := strings.Join(res.Failures, "; ")
		lines := strings.Count(v.Msg, "\n")
		if native == v.Msg {
			fmt.Printf("selftest #%d: OK (%d transcript lines identical, %d executor steps)\n", inst, lines, r.Steps)
			continue
		}
		bad++
		fmt.Printf("selftest #%d: TRANSCRIPTS DIFFER\n", inst)
		el, nl := strings.Split(v.Msg, "\n"), strings.Split(native, "\n")
		shown := 0
		for k := 0; k < len(el) || k < len(nl); k++ {
			var a, b string
			if k < len(el) {
				a = el[k]
			}
			if k < len(nl) {
				b = nl[k]
			}
			if a != b {
				fmt.Printf("  line %d\n    executor: %s\n    native:   %s\n", k, a, b)
				shown++
				if shown >= 10 {
					break
				}
			}
		}
	}
	if bad > 0 {
		return 1
	}
	return 0
}

// symgo: bounded symbolic execution of ichiban/prolog harnesses over go/ssa with SMT solvers.
//
//	symgo check <PROPERTY> [--tier quick|thorough]   orchestrate workers, replay counterexamples, write evidence
//	symgo worker                                      (internal) explore jobs read from stdin
//	symgo replay <file>                               replay one counterexample natively
//	symgo selftest                                    engine self checks
package main

import (
	"bufio"
	"encoding/json"
	"flag"
	"fmt"
	"os"
	"os/exec"
	"path/filepath"
	"sort"
	"strconv"
	"strings"
	"sync"
	"time"

	"verif/symgo/interp"
)

const modPath = "github.com/ichiban/prolog"

// verifDir is /verif; SYMGO_VERIF names a snapshot of it (harness/, known_findings.json) for background sweeps that must
// not see half-edited harness files. The registered commands never set it.
var verifDir = func() string {
	if v := os.Getenv("SYMGO_VERIF"); v != "" {
		return v
	}
	return "/verif"
}()

// repoDir is /repo. For testing the checks against a seeded change without touching /repo, SYMGO_REPO names a scratch
// copy of the repository; evidence and replay files then go to SYMGO_OUT (required) instead of /verif. The registered
// commands never set these.
var repoDir, outDir = func() (string, string) {
	if r := os.Getenv("SYMGO_REPO"); r != "" {
		o := os.Getenv("SYMGO_OUT")
		if o == "" {
			fmt.Fprintln(os.Stderr, "SYMGO_REPO needs SYMGO_OUT")
			os.Exit(2)
		}
		return r, o
	}
	return "/repo", verifDir
}()

// HarnessSpec is one entry of /verif/harness/index.json.
type HarnessSpec struct {
	Property  string   `json:"property"`
	Harness   string   `json:"harness"`
	Pkg       string   `json:"pkg"` // "engine" or "prolog"
	Instances int      `json:"instances"`
	InstQuick []int    `json:"instances_quick,omitempty"`
	InstThorough      []int `json:"instances_thorough,omitempty"` // if set: the instances of the thorough tier (default: all) // subset for the quick tier (default: all)
	Mode      string   `json:"mode"`
	Solver    string   `json:"solver"`
	TimeoutMS int      `json:"timeout_ms"`
	TimeoutMSThorough int `json:"timeout_ms_thorough,omitempty"`
	MaxSteps  int64    `json:"max_steps,omitempty"`
	MaxDepth  int      `json:"max_depth,omitempty"`
	MaxPaths  int      `json:"max_paths,omitempty"`
	Tier      string   `json:"tier,omitempty"` // "" both, "thorough" only
	Reach     []string `json:"reach,omitempty"`
	Bounds    string   `json:"bounds"`
	Funcs     []string `json:"funcs,omitempty"` // anchored functions expected on executed paths
	Summaries map[string]string `json:"summaries,omitempty"`
	BudgetAsViolation bool `json:"budget_as_violation,omitempty"`
	MaxPreempt        int  `json:"max_preempt,omitempty"`
	MaxPreemptThorough int `json:"max_preempt_thorough,omitempty"`
	// DeathOnly: the programs of this harness do not terminate by construction; a path over the budget is replayed natively
	// and only the DEATH of the process is a violation (running on is what the program means).
	DeathOnly bool `json:"death_only,omitempty"`
}

type Index struct {
	Harnesses  []HarnessSpec     `json:"harnesses"`
	Assumptions map[string][]string `json:"assumptions"`
	Explanation map[string]string `json:"explanation"`
}

type KnownFinding struct {
	ID       string `json:"id"`
	Property string `json:"property"`
	Status   string `json:"status"` // "open" | "fixed"
	What     string `json:"what"`
	Commit   string `json:"commit,omitempty"`
	// Match identifies a finding that shows as the death of the native process (no assertion region to attach it to) by
	// the harness and the instances (= the specific inputs) that fail.
	Match *struct {
		Harness   string `json:"harness"`
		Instances []int  `json:"instances"`
	} `json:"match,omitempty"`
}

func main() {
	if len(os.Args) < 2 {
		fmt.Fprintln(os.Stderr, "usage: symgo check|worker|replay|selftest ...")
		os.Exit(2)
	}
	switch os.Args[1] {
	case "check":
		os.Exit(cmdCheck(os.Args[2:]))
	case "worker":
		os.Exit(cmdWorker())
	case "replay":
		os.Exit(cmdReplay(os.Args[2:]))
	case "selftest":
		os.Exit(cmdSelftest(os.Args[2:]))
	}
	fmt.Fprintln(os.Stderr, "unknown command", os.Args[1])
	os.Exit(2)
}

// ---- overlay ----

func pkgPath(p string) string {
	if p == "prolog" {
		return modPath
	}
	return modPath + "/" + p
}

func pkgDir(p string) string {
	if p == "prolog" {
		return repoDir
	}
	return filepath.Join(repoDir, p)
}

// buildOverlay maps virtual /repo paths to harness file contents.
func buildOverlay(withTests bool) (map[string][]byte, error) {
	ov := map[string][]byte{}
	for _, p := range []string{"engine", "prolog"} {
		files, _ := filepath.Glob(filepath.Join(verifDir, "harness", p, "*.go"))
		if len(files) == 0 {
			continue
		}
		tmpl, err := os.ReadFile(filepath.Join(verifDir, "harness/common/api_"+p+".go.tmpl"))
		if err != nil {
			return nil, err
		}
		ov[filepath.Join(pkgDir(p), "zz_verif_api.go")] = tmpl
		for _, f := range files {
			b, err := os.ReadFile(f)
			if err != nil {
				return nil, err
			}
			base := filepath.Base(f)
			if strings.HasSuffix(base, "_test.go") && !withTests {
				continue
			}
			ov[filepath.Join(pkgDir(p), "zz_verif_"+base)] = b
		}
		if withTests {
			rt, err := os.ReadFile(filepath.Join(verifDir, "harness/common/replay_test_"+p+".go.tmpl"))
			if err == nil {
				ov[filepath.Join(pkgDir(p), "zz_verif_replay_test.go")] = rt
			}
		}
	}
	return ov, nil
}

func loadProgram() (*interp.Program, error) {
	ov, err := buildOverlay(false)
	if err != nil {
		return nil, err
	}
	return interp.LoadProgram(repoDir, []string{modPath, modPath + "/engine"}, ov, []string{"verif"})
}

func embeds() map[string]string {
	b, err := os.ReadFile(filepath.Join(repoDir, "bootstrap.pl"))
	if err != nil {
		return nil
	}
	return map[string]string{modPath + ".bootstrap": string(b)}
}

// ---- worker ----

func cmdWorker() int {
	prog, err := loadProgram()
	out := bufio.NewWriter(os.Stdout)
	enc := json.NewEncoder(out)
	if err != nil {
		enc.Encode(interp.JobResult{ID: -1, Error: "load: " + err.Error()})
		out.Flush()
		return 1
	}
	x := interp.NewExec(nil)
	if err := prog.Init(x, embeds()); err != nil {
		enc.Encode(interp.JobResult{ID: -1, Error: err.Error()})
		out.Flush()
		return 1
	}
	enc.Encode(interp.JobResult{ID: -2, WallS: prog.LoadS + prog.InitS})
	out.Flush()
	in := bufio.NewReaderSize(os.Stdin, 1<<20)
	dec := json.NewDecoder(in)
	for {
		var j interp.Job
		if err := dec.Decode(&j); err != nil {
			break
		}
		res := prog.RunJob(j)
		enc.Encode(res)
		out.Flush()
	}
	interp.CloseSolvers()
	return 0
}

// ---- check ----

// kfMatch returns the id of the open known finding that lists (harness, instance), if any.
func kfMatch(kfs []KnownFinding, harness string, inst int) string {
	for _, k := range kfs {
		if k.Status != "open" || k.Match == nil || k.Match.Harness != harness {
			continue
		}
		for _, i := range k.Match.Instances {
			if i == inst {
				return k.ID
			}
		}
	}
	return ""
}

func schedDependent(v interp.Violation) bool {
	for _, d := range v.Decisions {
		if d.Kind == "sched" && d.Choice != 0 {
			return true
		}
	}
	return false
}

func jobFor(prop string, h HarnessSpec, inst int, to int, kfOpen []string) interp.Job {
	return interp.Job{Property: prop, Harness: h.Harness, Pkg: pkgPath(h.Pkg), Instance: inst, Mode: h.Mode, Solver: h.Solver,
		TimeoutMS: to, MaxSteps: h.MaxSteps, MaxDepth: h.MaxDepth, MaxPaths: h.MaxPaths, SliceS: 15, KFOpen: kfOpen, Summaries: h.Summaries, BudgetAsViolation: h.BudgetAsViolation, MaxPreempt: h.MaxPreempt}
}

// execConfirm re-executes exactly the recorded path (decision vector including the schedule) in a fresh worker.
func execConfirm(v interp.Violation, specs []HarnessSpec) (bool, string) {
	var h *HarnessSpec
	for i := range specs {
		if specs[i].Harness == v.Harness {
			h = &specs[i]
		}
	}
	if h == nil {
		return false, "no harness spec"
	}
	w, err := startWorker()
	if err != nil {
		return false, err.Error()
	}
	defer w.stop()
	j := jobFor(h.Property, *h, v.Instance, h.TimeoutMS, nil)
	j.Prefixes = [][]interp.Decision{v.Decisions}
	j.MaxPaths = 1
	j.SliceS = 600
	r, err := w.run(j)
	if err != nil {
		return false, err.Error()
	}
	for _, rv := range r.Violations {
		if rv.Msg == v.Msg {
			return true, "same violation again"
		}
	}
	return false, fmt.Sprintf("path ended differently: %v", r.Ends)
}

type worker struct {
	cmd *exec.Cmd
	in  *json.Encoder
	inw *bufio.Writer
	out *json.Decoder
}

func startWorker() (*worker, error) {
	self, _ := os.Executable()
	cmd := exec.Command(self, "worker")
	cmd.Stderr = os.Stderr
	stdin, err := cmd.StdinPipe()
	if err != nil {
		return nil, err
	}
	stdout, err := cmd.StdoutPipe()
	if err != nil {
		return nil, err
	}
	if err := cmd.Start(); err != nil {
		return nil, err
	}
	w := &worker{cmd: cmd}
	w.inw = bufio.NewWriter(stdin)
	w.in = json.NewEncoder(w.inw)
	w.out = json.NewDecoder(bufio.NewReaderSize(stdout, 1<<20))
	var hello interp.JobResult
	if err := w.out.Decode(&hello); err != nil {
		return nil, fmt.Errorf("worker start: %v", err)
	}
	if hello.ID != -2 {
		return nil, fmt.Errorf("worker start: %s", hello.Error)
	}
	return w, nil
}

func (w *worker) run(j interp.Job) (interp.JobResult, error) {
	if err := w.in.Encode(j); err != nil {
		return interp.JobResult{}, err
	}
	w.inw.Flush()
	var r interp.JobResult
	if err := w.out.Decode(&r); err != nil {
		return r, err
	}
	return r, nil
}

func (w *worker) stop() {
	w.cmd.Process.Kill()
	w.cmd.Wait()
}

func loadIndex() (*Index, error) {
	b, err := os.ReadFile(filepath.Join(verifDir, "harness/index.json"))
	if err != nil {
		return nil, err
	}
	var idx Index
	if err := json.Unmarshal(b, &idx); err != nil {
		return nil, err
	}
	return &idx, nil
}

func loadKF() ([]KnownFinding, error) {
	b, err := os.ReadFile(filepath.Join(verifDir, "known_findings.json"))
	if err != nil {
		if os.IsNotExist(err) {
			return nil, nil
		}
		return nil, err
	}
	var kf struct {
		Findings []KnownFinding `json:"findings"`
	}
	if err := json.Unmarshal(b, &kf); err != nil {
		return nil, err
	}
	return kf.Findings, nil
}

type agg struct {
	jobs, paths      int
	ends             map[string]int
	steps            int64
	decisions        int
	q                struct{ n, sat, unsat, unknown, errors int; ns int64 }
	viols            []interp.Violation
	kfSeen           map[string]string
	reached, want    map[string]bool
	unsupp           map[string]int
	inconcl          []string
	stubs            map[string]int
	funcs            map[string]bool
	samples          []string
	harnessJobs      map[string]int
	errors           []string
}

func cmdCheck(args []string) int {
	fs := flag.NewFlagSet("check", flag.ExitOnError)
	tier := fs.String("tier", "", "quick|thorough")
	nworkers := fs.Int("j", 16, "workers")
	only := fs.String("harness", "", "only this harness")
	onlyInst := fs.Int("inst", -1, "only this instance")
	verbose := fs.Bool("v", false, "verbose")
	if len(args) < 1 {
		fmt.Fprintln(os.Stderr, "usage: symgo check <PROPERTY> [--tier quick|thorough]")
		return 2
	}
	prop := args[0]
	fs.Parse(args[1:])
	if *tier == "" {
		*tier = os.Getenv("VERIF_TIER")
	}
	if *tier == "" {
		*tier = "quick"
	}
	seed := 0
	if s := os.Getenv("VERIF_SEED"); s != "" {
		seed, _ = strconv.Atoi(s)
	}
	t0 := time.Now()
	idx, err := loadIndex()
	if err != nil {
		fmt.Fprintln(os.Stderr, "index:", err)
		return 2
	}
	kfs, err := loadKF()
	if err != nil {
		fmt.Fprintln(os.Stderr, "known findings:", err)
		return 2
	}
	var kfOpen []string
	kfByID := map[string]KnownFinding{}
	for _, k := range kfs {
		kfByID[k.ID] = k
		if k.Status == "open" && k.Property == prop {
			kfOpen = append(kfOpen, k.ID)
		}
	}
	// job list
	var jobs []interp.Job
	var specs []HarnessSpec
	harnessPkg := map[string]string{}
	deathOnly := map[string]bool{}
	for _, h := range idx.Harnesses {
		harnessPkg[h.Harness] = h.Pkg
		deathOnly[h.Harness] = h.DeathOnly
	}
	for _, h := range idx.Harnesses {
		if h.Property != prop {
			continue
		}
		if *only != "" && h.Harness != *only {
			continue
		}
		if h.Tier == "thorough" && *tier != "thorough" {
			continue
		}
		specs = append(specs, h)
		insts := []int{}
		if *tier == "quick" && len(h.InstQuick) > 0 {
			insts = h.InstQuick
		} else if *tier == "thorough" && len(h.InstThorough) > 0 {
			insts = h.InstThorough
		} else {
			for i := 0; i < h.Instances; i++ {
				insts = append(insts, i)
			}
		}
		to := h.TimeoutMS
		if *tier == "thorough" && h.TimeoutMSThorough > 0 {
			to = h.TimeoutMSThorough
		}
		for _, i := range insts {
			if *onlyInst >= 0 && i != *onlyInst {
				continue
			}
			hj := h
			if *tier == "thorough" && h.MaxPreemptThorough != 0 {
				hj.MaxPreempt = h.MaxPreemptThorough
			}
			jobs = append(jobs, jobFor(prop, hj, i, to, kfOpen))
		}
	}
	if len(jobs) == 0 {
		fmt.Fprintln(os.Stderr, "no harness registered for", prop)
		return 2
	}
	// VERIF_SEED permutes job order only
	if seed != 0 {
		r := uint64(seed)*6364136223846793005 + 1442695040888963407
		for i := len(jobs) - 1; i > 0; i-- {
			r = r*6364136223846793005 + 1442695040888963407
			k := int((r >> 33) % uint64(i+1))
			jobs[i], jobs[k] = jobs[k], jobs[i]
		}
	}
	for i := range jobs {
		jobs[i].ID = i
	}
	a := &agg{ends: map[string]int{}, kfSeen: map[string]string{}, reached: map[string]bool{}, want: map[string]bool{}, unsupp: map[string]int{},
		stubs: map[string]int{}, funcs: map[string]bool{}, harnessJobs: map[string]int{}}
	nw := *nworkers
	if nw > len(jobs) {
		nw = len(jobs)
	}
	if nw < 1 {
		nw = 1
	}
	// dynamic queue with leftover re-splitting
	var mu sync.Mutex
	queue := jobs
	pending := 0
	nextID := len(jobs)
	cond := sync.NewCond(&mu)
	var wg sync.WaitGroup
	maxW := *nworkers
	running := 0
	var spawn func()
	workerLoop := func() {
		defer wg.Done()
		w, err := startWorker()
		if err != nil {
			mu.Lock()
			a.errors = append(a.errors, err.Error())
			running--
			cond.Broadcast()
			mu.Unlock()
			return
		}
		defer w.stop()
		for {
			mu.Lock()
			for len(queue) == 0 && pending > 0 {
				cond.Wait()
			}
			if len(queue) == 0 {
				running--
				mu.Unlock()
				return
			}
			j := queue[0]
			queue = queue[1:]
			pending++
			mu.Unlock()
			r, err := w.run(j)
			mu.Lock()
			pending--
			if err != nil {
				a.errors = append(a.errors, fmt.Sprintf("worker died on %s#%d: %v", j.Harness, j.Instance, err))
				a.inconcl = append(a.inconcl, fmt.Sprintf("%s#%d: worker died (%v)", j.Harness, j.Instance, err))
				running--
				cond.Broadcast()
				mu.Unlock()
				return
			}
			a.add(j, r)
			if *verbose {
				fmt.Fprintf(os.Stderr, "[%6.1fs] %s#%d paths=%d ends=%v q=%d wall=%.1fs leftover=%d %s\n", time.Since(t0).Seconds(), j.Harness, j.Instance, r.Paths, r.Ends, r.Queries.Queries, r.WallS, len(r.Leftover), r.Error)
			}
			if len(r.Leftover) > 0 {
				// split leftover into up to 4 chunks
				n := len(r.Leftover)
				chunks := 4
				if n < chunks {
					chunks = n
				}
				for c := 0; c < chunks; c++ {
					nj := j
					nj.ID = nextID
					nextID++
					nj.Prefixes = nil
					for k := c; k < n; k += chunks {
						nj.Prefixes = append(nj.Prefixes, r.Leftover[k])
					}
					queue = append(queue, nj)
				}
				for running < maxW && running < len(queue)+pending {
					spawn()
				}
			}
			cond.Broadcast()
			mu.Unlock()
		}
	}
	spawn = func() {
		running++
		wg.Add(1)
		go workerLoop()
	}
	mu.Lock()
	for i := 0; i < nw; i++ {
		spawn()
	}
	mu.Unlock()
	wg.Wait()

	// ---- verdict ----
	exit := 0
	var lines []string
	inconclusive := len(a.errors) > 0 || len(a.inconcl) > 0
	// vacuity: every wanted reach label must be reached
	var missing []string
	for _, h := range specs {
		for _, l := range h.Reach {
			a.want[l] = true
		}
	}
	for l := range a.want {
		if !a.reached[l] {
			missing = append(missing, l)
		}
	}
	sort.Strings(missing)
	// replay counterexamples natively
	confirmed, refuted := 0, 0
	var violLines []string
	if len(a.viols) > 0 {
		rp, err := newReplayer()
		if err != nil {
			fmt.Fprintln(os.Stderr, "replay build failed:", err)
			inconclusive = true
		} else {
			defer rp.close()
			os.MkdirAll(filepath.Join(outDir, "replays", prop), 0o755)
			seen := map[string]bool{}
			n := 0
			for _, v := range a.viols {
				key := v.Harness + "#" + strconv.Itoa(v.Instance) + "#" + v.Msg
				if seen[key] {
					continue
				}
				seen[key] = true
				n++
				path := filepath.Join(outDir, "replays", prop, fmt.Sprintf("%s_%d_%d.json", v.Harness, v.Instance, n))
				b, _ := json.MarshalIndent(v, "", " ")
				os.WriteFile(path, b, 0o644)
				verdict := rp.replay(path, harnessPkg[v.Harness])
				if v.Kind == "budget" && deathOnly[v.Harness] && strings.Contains(verdict.Summary, "did not finish") {
					fmt.Printf("note %s#%d: over the executor's budget; the native run keeps running (a non-terminating program, as written): not a violation\n", v.Harness, v.Instance)
					continue
				}
				if verdict.Reproduced && v.Kind == "budget" {
					if id := kfMatch(kfs, v.Harness, v.Instance); id != "" {
						a.kfSeen[id] = fmt.Sprintf("%s#%d: %s", v.Harness, v.Instance, verdict.Summary)
						continue
					}
				}
				if verdict.Reproduced {
					confirmed++
					violLines = append(violLines, fmt.Sprintf("VIOLATION property=%s replay=%s", prop, path))
					fmt.Printf("counterexample %s#%d: %s | native: %s\n", v.Harness, v.Instance, v.Msg, verdict.Summary)
				} else if v.Kind == "exec" || schedDependent(v) {
					// executor-only evidence (write log, lockset) or a counterexample that needs a particular interleaving:
					// the Go scheduler cannot be forced natively, so the path is re-executed in a fresh executor process
					ok, sum := execConfirm(v, specs)
					if ok {
						confirmed++
						violLines = append(violLines, fmt.Sprintf("VIOLATION property=%s replay=%s", prop, path))
						fmt.Printf("counterexample %s#%d: %s | native (free-running scheduler): %s | executor re-execution of the recorded path and schedule: %s\n", v.Harness, v.Instance, v.Msg, verdict.Summary, sum)
					} else {
						refuted++
						fmt.Printf("UNCONFIRMED counterexample %s#%d: %s | re-execution: %s file=%s\n", v.Harness, v.Instance, v.Msg, sum, path)
					}
				} else if v.Kind == "budget" {
					a.inconcl = append(a.inconcl, fmt.Sprintf("%s#%d: %s; the native run of a witness finished normally (%s), so this is a bound of the executor, not a hang", v.Harness, v.Instance, v.Msg, verdict.Summary))
					inconclusive = true
				} else {
					refuted++
					fmt.Printf("UNCONFIRMED counterexample %s#%d: %s | native replay: %s (encoder fault, not reported as violation) file=%s\n", v.Harness, v.Instance, v.Msg, verdict.Summary, path)
				}
			}
		}
	}
	for id, what := range a.kfSeen {
		k := kfByID[id]
		lines = append(lines, fmt.Sprintf("KNOWN-FINDING: property=%s %s: %s; witness: %s", prop, id, k.What, what))
	}
	sort.Strings(lines)
	for _, l := range lines {
		fmt.Println(l)
	}
	for _, l := range violLines {
		fmt.Println(l)
	}
	switch {
	case confirmed > 0:
		exit = 1
	case refuted > 0:
		exit = 3
	case inconclusive:
		exit = 2
	case len(missing) > 0:
		exit = 2
	}
	wall := time.Since(t0).Seconds()
	writeEvidence(prop, *tier, seed, idx, specs, a, confirmed, refuted, missing, wall)
	fmt.Printf("%s tier=%s jobs=%d paths=%d ends=%v queries=%d (sat %d unsat %d unknown %d err %d) solver=%.1fs steps=%d wall=%.1fs exit=%d\n",
		prop, *tier, a.jobs, a.paths, a.ends, a.q.n, a.q.sat, a.q.unsat, a.q.unknown, a.q.errors, float64(a.q.ns)/1e9, a.steps, wall, exit)
	if len(missing) > 0 {
		fmt.Println("VACUOUS: reach labels never reached:", strings.Join(missing, ", "))
	}
	for _, e := range a.errors {
		fmt.Println("ERROR:", e)
	}
	for i, e := range a.inconcl {
		if i >= 10 {
			fmt.Printf("... %d more inconclusive\n", len(a.inconcl)-10)
			break
		}
		fmt.Println("INCONCLUSIVE:", e)
	}
	return exit
}

func (a *agg) add(j interp.Job, r interp.JobResult) {
	a.jobs++
	a.harnessJobs[j.Harness]++
	a.paths += r.Paths
	for k, v := range r.Ends {
		a.ends[k] += v
	}
	a.steps += r.Steps
	a.decisions += r.Decisions
	a.q.n += r.Queries.Queries
	a.q.sat += r.Queries.Sat
	a.q.unsat += r.Queries.Unsat
	a.q.unknown += r.Queries.Unknown
	a.q.errors += r.Queries.Errors
	a.q.ns += r.Queries.SolverNS
	a.viols = append(a.viols, r.Violations...)
	for k, v := range r.KFSeen {
		if _, ok := a.kfSeen[k]; !ok {
			a.kfSeen[k] = v
		}
	}
	for _, l := range r.Reached {
		a.reached[l] = true
	}
	for _, l := range r.ReachWant {
		a.want[l] = true
	}
	for k, v := range r.Unsupp {
		a.unsupp[k] += v
	}
	for _, m := range r.Inconcl {
		a.inconcl = append(a.inconcl, fmt.Sprintf("%s#%d: %s", j.Harness, j.Instance, m))
	}
	for k, v := range r.Stubs {
		a.stubs[k] += v
	}
	for _, f := range r.Funcs {
		a.funcs[f] = true
	}
	if len(a.samples) < 12 {
		a.samples = append(a.samples, r.Samples...)
	}
	if r.Error != "" {
		a.errors = append(a.errors, fmt.Sprintf("%s#%d: %s", j.Harness, j.Instance, r.Error))
	}
	if r.Queries.Errors > 0 {
		a.inconcl = append(a.inconcl, fmt.Sprintf("%s#%d: %d solver error lines", j.Harness, j.Instance, r.Queries.Errors))
	}
}

func writeEvidence(prop, tier string, seed int, idx *Index, specs []HarnessSpec, a *agg, confirmed, refuted int, missing []string, wall float64) {
	var bounds []string
	var hnames []string
	for _, h := range specs {
		bounds = append(bounds, h.Harness+": "+h.Bounds)
		hnames = append(hnames, fmt.Sprintf("%s (%d jobs, mode %s, solver %s)", h.Harness, a.harnessJobs[h.Harness], h.Mode, h.Solver))
	}
	var funcs []string
	for f := range a.funcs {
		if !strings.Contains(f, "zz_verif") && !strings.HasPrefix(f, modPath+"/engine.H_") && !strings.Contains(f, ".v") {
			funcs = append(funcs, strings.ReplaceAll(f, modPath, "prolog"))
		}
	}
	sort.Strings(funcs)
	var stubs []string
	for s, n := range a.stubs {
		stubs = append(stubs, fmt.Sprintf("%s (x%d)", s, n))
	}
	sort.Strings(stubs)
	var reached []string
	for l := range a.reached {
		reached = append(reached, l)
	}
	sort.Strings(reached)
	var unsupp []string
	for s, n := range a.unsupp {
		unsupp = append(unsupp, fmt.Sprintf("%s (x%d)", s, n))
	}
	sort.Strings(unsupp)
	var kfs []string
	for k := range a.kfSeen {
		kfs = append(kfs, k)
	}
	sort.Strings(kfs)
	done := a.ends["done"] + a.ends["violation"]
	exhaustive := len(a.inconcl) == 0 && len(a.errors) == 0
	samples := []interface{}{}
	for _, s := range a.samples {
		if s != "" {
			samples = append(samples, s)
		}
	}
	if len(samples) == 0 {
		samples = append(samples, "no completed path")
	}
	expl := idx.Explanation[prop]
	if expl == "" {
		expl = "Bounded symbolic execution of the real go/ssa code of /repo (rebuilt on this run) with an SMT solver deciding every branch and assertion."
	}
	cov := map[string]interface{}{
		"explanation":         expl,
		"evaluations":         a.paths,
		"distinct_nontrivial": done,
		"rule":                "one evaluation = one explored path (a set of inputs sharing all branch outcomes); counted as non-trivial when it ran to the end of the harness (assertions discharged by unsat) or ended in a violation; infeasible/assume-false paths are excluded; paths are distinct by construction (distinct decision vectors)",
		"samples":             samples,
		"exhaustive":          exhaustive,
		"harnesses":           hnames,
		"bounds":              bounds,
		"functions_encoded":   funcs,
		"paths_by_end":        a.ends,
		"ssa_steps":           a.steps,
		"decisions":           a.decisions,
		"queries":             map[string]interface{}{"total": a.q.n, "sat": a.q.sat, "unsat": a.q.unsat, "unknown": a.q.unknown, "error_lines": a.q.errors},
		"solver_time_s":       float64(a.q.ns) / 1e9,
		"stubs_hit":           stubs,
		"reach_labels_hit":    reached,
		"reach_labels_missing": missing,
		"unsupported":         unsupp,
		"inconclusive":        a.inconcl,
		"counterexamples_confirmed_by_native_replay": confirmed,
		"counterexamples_not_reproduced":             refuted,
		"known_findings_matched":                     kfs,
		"jobs":                                       a.jobs,
	}
	ev := map[string]interface{}{
		"property_id": prop,
		"tier":        tier,
		"seed":        seed,
		"level":       "other",
		"coverage":    cov,
		"assumptions": append([]string{}, idx.Assumptions[prop]...),
		"wall_s":      wall,
		"violations":  confirmed,
	}
	b, _ := json.MarshalIndent(ev, "", " ")
	os.MkdirAll(filepath.Join(outDir, "evidence"), 0o755)
	os.WriteFile(filepath.Join(outDir, "evidence", prop+".json"), b, 0o644)
}

package interp

// Strings with symbolic bytes: concrete length, each byte a uint8 or a *sym of kind Uint8.

import (
	"fmt"
	"go/token"
	"go/types"
	"strings"

	"golang.org/x/tools/go/ssa"
	"verif/symgo/smt"
)

type sstring []value

func (s sstring) debug() string {
	var sb strings.Builder
	sb.WriteString("s\"")
	for _, b := range s {
		if c, ok := b.(uint8); ok {
			fmt.Fprintf(&sb, "%s", string(rune(c)))
		} else {
			sb.WriteString("?")
		}
	}
	sb.WriteString("\"")
	return sb.String()
}

func isSymbolicOperand(v value) bool {
	switch v.(type) {
	case *sym, sstring:
		return true
	}
	return false
}

// normString returns a Go string when every byte is concrete.
func normString(s sstring) value {
	for _, b := range s {
		if _, ok := b.(uint8); !ok {
			return s
		}
	}
	bs := make([]byte, len(s))
	for i, b := range s {
		bs[i] = b.(uint8)
	}
	return string(bs)
}

func toSString(v value) sstring {
	switch v := v.(type) {
	case sstring:
		return v
	case string:
		out := make(sstring, len(v))
		for i := 0; i < len(v); i++ {
			out[i] = v[i]
		}
		return out
	}
	panic(fmt.Sprintf("toSString: %T", v))
}

func byteTerm(b value) *smt.Term { return termOf(b, types.Uint8) }

func symStringBinop(op token.Token, x, y value) value {
	a, b := toSString(x), toSString(y)
	switch op {
	case token.ADD:
		out := make(sstring, 0, len(a)+len(b))
		out = append(out, a...)
		out = append(out, b...)
		return normString(out)
	case token.EQL, token.NEQ:
		var r *smt.Term
		if len(a) != len(b) {
			r = smt.False()
		} else {
			r = smt.True()
			for i := range a {
				r = smt.And(r, smt.Eq(byteTerm(a[i]), byteTerm(b[i])))
				if r.IsConst && r.CVal == 0 {
					break
				}
			}
		}
		if op == token.NEQ {
			r = smt.Not(r)
		}
		return symBool(r)
	case token.LSS, token.LEQ, token.GTR, token.GEQ:
		if op == token.GTR || op == token.GEQ {
			a, b = b, a
			if op == token.GTR {
				op = token.LSS
			} else {
				op = token.LEQ
			}
		}
		// a < b (or <=) lexicographically, computed from the end
		var r *smt.Term
		n := len(a)
		if len(b) < n {
			n = len(b)
		}
		// tail result when common prefix equal
		if op == token.LSS {
			r = smt.BoolConst(len(a) < len(b))
		} else {
			r = smt.BoolConst(len(a) <= len(b))
		}
		for i := n - 1; i >= 0; i-- {
			ai, bi := byteTerm(a[i]), byteTerm(b[i])
			r = smt.Ite(smt.Eq(ai, bi), r, smt.BVUlt(ai, bi))
		}
		return symBool(r)
	}
	unsupported("string operator %s on symbolic string", op)
	return nil
}

var utf8Funcs struct {
	appendRune, decodeRune *ssa.Function
}

func lookupFunc(i *interpreter, pkgPath, name string) *ssa.Function {
	for _, p := range i.prog.AllPackages() {
		if p.Pkg.Path() == pkgPath {
			return p.Func(name)
		}
	}
	return nil
}

// symRuneToString implements string(r) for a symbolic integer by running the real utf8.AppendRune.
func symRuneToString(x *sym) value {
	i := theInterp
	f := lookupFunc(i, "unicode/utf8", "AppendRune")
	if f == nil {
		unsupported("utf8.AppendRune not in program")
	}
	// string(int) for values outside rune range yields U+FFFD; convert to int32 domain safely
	var r value = x
	if kindWidth(x.k) != 32 || !kindSigned(x.k) {
		// out of int32 range -> RuneError
		w := kindWidth(x.k)
		var inr *smt.Term
		if kindSigned(x.k) {
			inr = smt.And(smt.BVSge(x.t, smt.BVConst(0, w)), smt.BVSle(x.t, smt.BVConst(0x10FFFF, w)))
		} else {
			inr = smt.BVUle(x.t, smt.BVConst(0x10FFFF, w))
		}
		if w < 32 {
			r = mkSym(types.Int32, smt.Resize(x.t, 32, kindSigned(x.k)))
		} else if X.Decide(inr) {
			r = mkSym(types.Int32, smt.Extract(31, 0, x.t))
		} else {
			r = int32(0xFFFD)
		}
	}
	res := callSSA(i, nil, token.NoPos, f, []value{[]value(nil), r}, nil)
	return normString(sstring(res.([]value)))
}

// decodeRuneAt decodes one rune from s starting at byte offset i using the real utf8.DecodeRune.
func decodeRuneAt(s sstring, i int) (value, int) {
	f := lookupFunc(theInterp, "unicode/utf8", "DecodeRune")
	if f == nil {
		unsupported("utf8.DecodeRune not in program")
	}
	res := callSSA(theInterp, nil, token.NoPos, f, []value{[]value(s[i:])}, nil).(tuple)
	return res[0], int(asInt64(res[1]))
}

type sstringIter struct {
	s sstring
	i int
}

func newSStringIter(s sstring) *sstringIter { return &sstringIter{s: s} }

func (it *sstringIter) next() tuple {
	okv := make(tuple, 3)
	if it.i >= len(it.s) {
		okv[0] = false
		return okv
	}
	r, n := decodeRuneAt(it.s, it.i)
	okv[0] = true
	okv[1] = it.i
	okv[2] = r
	it.i += n
	return okv
}

// symConvAggregate handles string<->[]byte/[]rune conversions involving symbolic bytes.
func symConvAggregate(utDst, utSrc types.Type, x value) (value, bool) {
	switch x := x.(type) {
	case sstring:
		switch d := utDst.(type) {
		case *types.Slice:
			switch d.Elem().Underlying().(*types.Basic).Kind() {
			case types.Byte:
				out := make([]value, len(x))
				copy(out, x)
				return out, true
			case types.Rune:
				var out []value
				for i := 0; i < len(x); {
					r, n := decodeRuneAt(x, i)
					out = append(out, r)
					i += n
				}
				return out, true
			}
		case *types.Basic:
			if d.Kind() == types.String {
				return x, true
			}
		}
	case []value:
		sl, ok := utSrc.(*types.Slice)
		if !ok {
			return nil, false
		}
		if db, ok := utDst.(*types.Basic); !ok || db.Kind() != types.String {
			return nil, false
		}
		hasSym := false
		for _, e := range x {
			if isSym(e) {
				hasSym = true
				break
			}
		}
		if !hasSym {
			return nil, false
		}
		switch sl.Elem().Underlying().(*types.Basic).Kind() {
		case types.Byte:
			out := make(sstring, len(x))
			copy(out, x)
			return out, true
		case types.Rune:
			var out sstring
			for _, r := range x {
				switch r := r.(type) {
				case *sym:
					out = append(out, toSString(symRuneToString(r))...)
				default:
					out = append(out, toSString(string(rune(r.(int32))))...)
				}
			}
			return normString(out), true
		}
	}
	return nil, false
}

package interp

// Cooperative scheduler for interpreted goroutines (DESIGN §2.6): goroutines are real Go goroutines that run one at
// a time under a baton; channels, select, close, mutexes and atomics are implemented here; at every blocking
// synchronisation operation the next goroutine to run is a decision of the path explorer, so all interleavings
// at synchronisation granularity are explored within a preemption bound.

import (
	"fmt"
	"go/token"
	"go/types"
	"sync"

	"golang.org/x/tools/go/ssa"
)

type gstate int

const (
	gRunnable gstate = iota
	gBlocked
	gDone
)

type G struct {
	id     int
	resume chan struct{}
	state  gstate
	killed bool
	// blocked on:
	sel    *selWait
	lockOn *lockState
	wantW  bool
	what   string
	held   []heldLock
}

type schan struct {
	id     int
	buf    []value
	cap    int
	closed bool
	sendq  []*selCase // blocked senders
	recvq  []*selCase // blocked receivers
}

type selCase struct {
	g    *G
	w    *selWait
	idx  int
	ch   *schan
	send bool
	val  value
}

type selWait struct {
	cases  []*selCase
	fired  int // index of the case that completed, -1 while waiting
	recv   value
	recvOK bool
}

type lockState struct {
	writer  *G
	readers int
}

type scheduler struct {
	gs          []*G
	cur         *G
	main        *G
	nextChan    int
	locks       map[*value]*lockState
	pendingEnd  interface{} // pathEnd or other panic raised in a child goroutine, to be re-raised in main
	wg          sync.WaitGroup
	preemptions int
	MaxPreempt  int
	draining    bool
	events      []string
}

var sch *scheduler

func resetScheduler() {
	m := &G{id: 0, resume: make(chan struct{}, 1), state: gRunnable}
	sch = &scheduler{gs: []*G{m}, cur: m, main: m, locks: map[*value]*lockState{}, MaxPreempt: 2}
	if X != nil && X.MaxPreempt > 0 {
		sch.MaxPreempt = X.MaxPreempt
	} else if X != nil && X.MaxPreempt < 0 {
		sch.MaxPreempt = 0 // no preemption: a goroutine runs until it blocks
	}
}

func runMain(i *interpreter, fn *ssa.Function, args []value) {
	resetScheduler()
	call(i, nil, token.NoPos, fn, args)
}

// killGoroutines unwinds every interpreted goroutine that is still alive at the end of a path.
func killGoroutines() {
	if sch == nil {
		return
	}
	for _, g := range sch.gs {
		if g != sch.main && g.state != gDone {
			g.killed = true
			g.state = gDone
			select {
			case g.resume <- struct{}{}:
			default:
			}
		}
	}
	sch.wg.Wait()
}

func numGoroutines() value {
	n := 0
	for _, g := range sch.gs {
		if g.state != gDone {
			n++
		}
	}
	return n
}

// spawn implements the go statement.
func spawn(i *interpreter, fn value, args []value) {
	g := &G{id: len(sch.gs), resume: make(chan struct{}, 1), state: gRunnable}
	sch.gs = append(sch.gs, g)
	sch.wg.Add(1)
	go func() {
		defer sch.wg.Done()
		<-g.resume
		if g.killed {
			return
		}
		defer func() {
			r := recover()
			g.state = gDone
			if r != nil {
				if pe, ok := r.(pathEnd); ok && pe.kind == endKilled {
					return
				}
				if g.killed {
					return
				}
				// a path end or an uncaught panic in a child goroutine ends the path: hand it to main
				if sch.pendingEnd == nil {
					sch.pendingEnd = r
				}
				sch.main.state = gRunnable
				sch.cur = sch.main
				sch.main.resume <- struct{}{}
				return
			}
			// normal termination: pass the baton
			next := pickNext(nil)
			if next == nil {
				// nobody can run: main must be blocked -> deadlock, reported in main
				sch.pendingEnd = deadlockEnd()
				sch.cur = sch.main
				sch.main.state = gRunnable
				sch.main.resume <- struct{}{}
				return
			}
			sch.cur = next
			next.resume <- struct{}{}
		}()
		call(i, nil, token.NoPos, fn, args)
	}()
}

type deadlockT struct{ msg string }

func deadlockEnd() interface{} {
	var blocked []string
	for _, g := range sch.gs {
		if g.state == gBlocked {
			blocked = append(blocked, fmt.Sprintf("g%d(%s)", g.id, g.what))
		}
	}
	return deadlockT{fmt.Sprintf("deadlock: every goroutine is blocked: %v", blocked)}
}

// runnable lists the goroutines that can run now.
func runnable() []*G {
	var out []*G
	for _, g := range sch.gs {
		if g.state == gRunnable {
			out = append(out, g)
		}
	}
	return out
}

// pickNext chooses the next goroutine among the runnable ones (a decision when there are several).
// self != nil means the current goroutine is still enabled (choosing another one is a preemption).
func pickNext(self *G) *G {
	rs := runnable()
	if len(rs) == 0 {
		return nil
	}
	if sch.draining {
		// deterministic: the current goroutine if it is still enabled, else another non-main one, else main
		if self != nil {
			return self
		}
		for _, g := range rs {
			if g != sch.main {
				return g
			}
		}
		return sch.main
	}
	if self != nil {
		if sch.preemptions >= sch.MaxPreempt {
			return self
		}
		// order: self first, so that alternative 0 is "no preemption"
		ord := []*G{self}
		for _, g := range rs {
			if g != self {
				ord = append(ord, g)
			}
		}
		if len(ord) == 1 {
			return self
		}
		c := X.schedChoice(len(ord))
		if c != 0 {
			sch.preemptions++
		}
		return ord[c]
	}
	if len(rs) == 1 {
		return rs[0]
	}
	return rs[X.schedChoice(len(rs))]
}

// schedChoice is a decision that is not a harness draw.
func (x *Exec) schedChoice(n int) int {
	if d, ok := x.nextDecision("sched"); ok {
		return d.Choice
	}
	for i := n - 1; i >= 1; i-- {
		x.pushAlt(Decision{Kind: "sched", Choice: i})
	}
	x.trace = append(x.trace, Decision{Kind: "sched", Choice: 0})
	return 0
}

// transfer gives the baton to next and suspends the current goroutine until it is resumed.
func transfer(next *G) {
	me := sch.cur
	if next == me {
		return
	}
	sch.cur = next
	next.resume <- struct{}{}
	<-me.resume
	afterResume(me)
}

func afterResume(me *G) {
	if me.killed {
		panic(pathEnd{endKilled, ""})
	}
	if me == sch.main && sch.pendingEnd != nil {
		r := sch.pendingEnd
		sch.pendingEnd = nil
		if d, ok := r.(deadlockT); ok {
			X.Violate("deadlock", d.msg, "")
			panic(pathEnd{endViolation, d.msg})
		}
		panic(r)
	}
}

// yield is a scheduling point at which the current goroutine stays enabled.
func yield() {
	if sch == nil || len(sch.gs) == 1 {
		return
	}
	next := pickNext(sch.cur)
	transfer(next)
}

// block suspends the current goroutine (state already set to gBlocked) until somebody makes it runnable.
func block(what string) {
	me := sch.cur
	me.what = what
	next := pickNext(nil)
	if next == nil {
		d := deadlockEnd().(deadlockT)
		if me == sch.main {
			me.state = gRunnable
			X.Violate("deadlock", d.msg, "")
			panic(pathEnd{endViolation, d.msg})
		}
		sch.pendingEnd = d
		sch.main.state = gRunnable
		next = sch.main
	}
	sch.cur = next
	next.resume <- struct{}{}
	<-me.resume
	afterResume(me)
}

func schedPoint(what string, obj value) { yield() }

// drainOthers runs every other runnable goroutine, deterministically, until only main can run.
func drainOthers() {
	if sch == nil || sch.cur != sch.main {
		return
	}
	sch.draining = true
	defer func() { sch.draining = false }()
	for {
		var other *G
		for _, g := range sch.gs {
			if g != sch.main && g.state == gRunnable {
				other = g
				break
			}
		}
		if other == nil {
			return
		}
		transfer(other)
	}
}

// ---- channels ----

func makeChan(capacity int) *schan {
	sch.nextChan++
	return &schan{id: sch.nextChan, cap: capacity}
}

func removeCase(q []*selCase, c *selCase) []*selCase {
	for i, x := range q {
		if x == c {
			return append(q[:i:i], q[i+1:]...)
		}
	}
	return q
}

// fire completes waiting case c (of another goroutine) and makes its goroutine runnable.
func fire(c *selCase, v value, ok bool) {
	w := c.w
	w.fired = c.idx
	w.recv, w.recvOK = v, ok
	for _, o := range w.cases {
		if o.ch != nil {
			o.ch.sendq = removeCase(o.ch.sendq, o)
			o.ch.recvq = removeCase(o.ch.recvq, o)
		}
	}
	c.g.state = gRunnable
}

// trySend / tryRecv perform the operation if it can proceed now.
func trySend(ch *schan, v value) bool {
	if ch.closed {
		panic(targetPanic{iface{types.Typ[types.String], "send on closed channel"}})
	}
	if len(ch.recvq) > 0 {
		r := ch.recvq[0]
		fire(r, v, true)
		return true
	}
	if len(ch.buf) < ch.cap {
		ch.buf = append(ch.buf, v)
		return true
	}
	return false
}

func tryRecv(ch *schan) (value, bool, bool) {
	if len(ch.buf) > 0 {
		v := ch.buf[0]
		ch.buf = ch.buf[1:]
		// a blocked sender can now move its value into the buffer
		if len(ch.sendq) > 0 {
			s := ch.sendq[0]
			ch.buf = append(ch.buf, s.val)
			fire(s, nil, false)
		}
		return v, true, true
	}
	if len(ch.sendq) > 0 {
		s := ch.sendq[0]
		v := s.val
		fire(s, nil, false)
		return v, true, true
	}
	if ch.closed {
		return nil, false, true
	}
	return nil, false, false
}

func chanSend(chv value, v value) {
	ch, _ := chv.(*schan)
	yield()
	if ch == nil {
		sch.cur.state = gBlocked
		block("send on nil channel")
		return
	}
	if trySend(ch, v) {
		return
	}
	me := sch.cur
	w := &selWait{fired: -1}
	c := &selCase{g: me, w: w, idx: 0, ch: ch, send: true, val: v}
	w.cases = []*selCase{c}
	ch.sendq = append(ch.sendq, c)
	me.state = gBlocked
	me.sel = w
	block(fmt.Sprintf("send on chan %d", ch.id))
	if ch.closed && w.fired < 0 {
		panic(targetPanic{iface{types.Typ[types.String], "send on closed channel"}})
	}
}

func chanRecv(chv value, elemT types.Type) (value, bool) {
	ch, _ := chv.(*schan)
	yield()
	if ch == nil {
		sch.cur.state = gBlocked
		block("receive from nil channel")
		return zero(elemT), false
	}
	if v, ok, done := tryRecv(ch); done {
		if !ok {
			return zero(elemT), false
		}
		return v, true
	}
	me := sch.cur
	w := &selWait{fired: -1}
	c := &selCase{g: me, w: w, idx: 0, ch: ch}
	w.cases = []*selCase{c}
	ch.recvq = append(ch.recvq, c)
	me.state = gBlocked
	me.sel = w
	block(fmt.Sprintf("receive on chan %d", ch.id))
	if !w.recvOK {
		return zero(elemT), false
	}
	return w.recv, true
}

func chanClose(chv value) {
	ch, _ := chv.(*schan)
	yield()
	if ch == nil {
		panic(targetPanic{iface{types.Typ[types.String], "close of nil channel"}})
	}
	if ch.closed {
		panic(targetPanic{iface{types.Typ[types.String], "close of closed channel"}})
	}
	ch.closed = true
	for len(ch.recvq) > 0 {
		fire(ch.recvq[0], nil, false)
	}
	for len(ch.sendq) > 0 {
		// blocked senders panic when they resume
		s := ch.sendq[0]
		s.w.fired = -1
		ch.sendq = ch.sendq[1:]
		s.g.state = gRunnable
	}
}

// selectOp implements the select statement. Returns (chosen index or -1 for default, recvOK, received value).
func selectOp(instr *ssa.Select, chans []value, sends []value) (int, bool, value) {
	// which cases can proceed now?
	ready := func() []int {
		var r []int
		for i, st := range instr.States {
			ch, _ := chans[i].(*schan)
			if ch == nil {
				continue
			}
			if st.Dir == types.SendOnly {
				if ch.closed || len(ch.recvq) > 0 || len(ch.buf) < ch.cap {
					r = append(r, i)
				}
			} else {
				if len(ch.buf) > 0 || len(ch.sendq) > 0 || ch.closed {
					r = append(r, i)
				}
			}
		}
		return r
	}
	if instr.Blocking {
		yield()
	}
	rs := ready()
	if len(rs) > 0 {
		c := rs[0]
		if len(rs) > 1 {
			c = rs[X.schedChoice(len(rs))] // Go picks pseudo-randomly among the ready cases: every pick is explored
		}
		ch := chans[c].(*schan)
		if instr.States[c].Dir == types.SendOnly {
			trySend(ch, sends[c])
			return c, false, nil
		}
		v, ok, _ := tryRecv(ch)
		return c, ok, v
	}
	if !instr.Blocking {
		return -1, false, nil
	}
	me := sch.cur
	w := &selWait{fired: -1}
	for i, st := range instr.States {
		ch, _ := chans[i].(*schan)
		if ch == nil {
			continue
		}
		c := &selCase{g: me, w: w, idx: i, ch: ch}
		if st.Dir == types.SendOnly {
			c.send, c.val = true, sends[i]
			ch.sendq = append(ch.sendq, c)
		} else {
			ch.recvq = append(ch.recvq, c)
		}
		w.cases = append(w.cases, c)
	}
	me.state = gBlocked
	me.sel = w
	block("select")
	return w.fired, w.recvOK, w.recv
}

// ---- mutexes ----

func lockOf(p value) *lockState {
	addr, ok := p.(*value)
	if !ok {
		panic(fmt.Sprintf("mutex receiver %T", p))
	}
	ls := sch.locks[addr]
	if ls == nil {
		ls = &lockState{}
		sch.locks[addr] = ls
	}
	return ls
}

func wakeLockWaiters(ls *lockState) {
	for _, g := range sch.gs {
		if g.state == gBlocked && g.lockOn == ls {
			g.state = gRunnable // they re-check the lock when they run
			g.lockOn = nil
		}
	}
}

func extMutexLock(fr *frame, args []value) value {
	ls := lockOf(args[0])
	yield()
	for ls.writer != nil || ls.readers > 0 {
		me := sch.cur
		me.state = gBlocked
		me.lockOn = ls
		block("Lock")
	}
	ls.writer = sch.cur
	sch.cur.held = append(sch.cur.held, heldLock{ls, true})
	return nil
}

func extMutexUnlock(fr *frame, args []value) value {
	ls := lockOf(args[0])
	if ls.writer == nil {
		panic(targetPanic{iface{types.Typ[types.String], "sync: unlock of unlocked mutex"}})
	}
	ls.writer = nil
	dropHeld(sch.cur, ls)
	wakeLockWaiters(ls)
	yield()
	return nil
}

func extMutexRLock(fr *frame, args []value) value {
	ls := lockOf(args[0])
	yield()
	for ls.writer != nil {
		me := sch.cur
		me.state = gBlocked
		me.lockOn = ls
		block("RLock")
	}
	ls.readers++
	sch.cur.held = append(sch.cur.held, heldLock{ls, false})
	return nil
}

func extMutexRUnlock(fr *frame, args []value) value {
	ls := lockOf(args[0])
	if ls.readers <= 0 {
		panic(targetPanic{iface{types.Typ[types.String], "sync: RUnlock of unlocked RWMutex"}})
	}
	ls.readers--
	dropHeld(sch.cur, ls)
	wakeLockWaiters(ls)
	yield()
	return nil
}

func dropHeld(g *G, ls *lockState) {
	for i := len(g.held) - 1; i >= 0; i-- {
		if g.held[i].ls == ls {
			g.held = append(g.held[:i:i], g.held[i+1:]...)
			return
		}
	}
}

package interp

// Goroutine scheduling for interpreted programs (cooperative, one baton). See sched_impl below.

import (
	"go/token"

	"golang.org/x/tools/go/ssa"
)

func runMain(i *interpreter, fn *ssa.Function, args []value) {
	call(i, nil, token.NoPos, fn, args)
}

func killGoroutines() {}

func schedPoint(what string, obj value) {}

func numGoroutines() value { return 1 }

func extMutexLock(fr *frame, args []value) value    { schedPoint("Lock", args[0]); return nil }
func extMutexUnlock(fr *frame, args []value) value  { schedPoint("Unlock", args[0]); return nil }
func extMutexRLock(fr *frame, args []value) value   { schedPoint("RLock", args[0]); return nil }
func extMutexRUnlock(fr *frame, args []value) value { schedPoint("RUnlock", args[0]); return nil }

package interp

// Symbolic execution context: decisions, path conditions, budgets, results.

import (
	"fmt"
	"math/big"
	"sort"
	"strings"

	"golang.org/x/tools/go/ssa"
	"verif/symgo/smt"
)

// Decision is one resolved choice point on a path.
type Decision struct {
	Kind   string   `json:"k"`           // "br" branch, "enum" concretisation, "ch" choice, "sched"
	Choice int      `json:"c"`           // branch: 1=true 0=false; choice: index
	Val    string   `json:"v,omitempty"` // enum: chosen value (decimal, unsigned bits)
	Excl   []string `json:"x,omitempty"` // enum: values excluded before choosing
}

type pathEndKind int

const (
	endDone pathEndKind = iota
	endAssumeFalse
	endInfeasible
	endViolation
	endBudget
	endUnsupported
	endUnknown
	endKilled // goroutine teardown
)

func (k pathEndKind) String() string {
	return [...]string{"done", "assume-false", "infeasible", "violation", "budget", "unsupported", "solver-unknown", "killed"}[k]
}

// pathEnd is the panic value that terminates the current path.
type pathEnd struct {
	kind pathEndKind
	msg  string
}

func (p pathEnd) String() string { return p.kind.String() + ": " + p.msg }

// NondetRec records one symbolic input of the path.
type NondetRec struct {
	Name string
	Kind string // go kind: int64, float64, bool, ...
	Var  *smt.Term
}

// Violation is a failed assertion with a model.
type Violation struct {
	Harness   string            `json:"harness"`
	Instance  int               `json:"instance"`
	Msg       string            `json:"msg"`
	Draws     []Draw            `json:"draws"` // nondet/choice values in draw order for native replay
	Decisions []Decision        `json:"decisions"`
	Notes     map[string]string `json:"notes,omitempty"`
	KF        string            `json:"kf,omitempty"` // known-finding id if inside a listed region
	Kind      string            `json:"kind"`         // "assert", "panic", "deadlock", "budget"
}

// Draw is one nondet draw (name, kind, value) in program order.
type Draw struct {
	Name string `json:"name"`
	Kind string `json:"kind"`
	Val  string `json:"val"` // decimal: signed for ints, bit pattern (unsigned) for floats, 0/1 for bool
}

// PathResult summarises one explored path.
type PathResult struct {
	End     pathEndKind
	Msg     string
	Steps   int64
	Trace   []Decision
	Pending [][]Decision
}

// Exec is the per-process symbolic execution state.
type Exec struct {
	S        *smt.Solver
	IntMode  bool
	MaxSteps int64
	MaxDepth int
	MaxDecs  int

	prefix  []Decision
	pos     int
	trace   []Decision
	pending [][]Decision
	steps   int64
	depth   int

	draws     []drawRec
	nvars     int
	Reached   map[string]bool
	ReachWant map[string]bool
	Notes     map[string]string
	KFOpen    map[string]bool // known-finding ids listed as open
	KFSeen    map[string]string
	Viols     []Violation
	Unsupp    map[string]int
	StubsHit  map[string]int
	FuncsHit  map[*ssa.Function]int64
	Harness   string
	Instance  int
	Samples   []string
	concrete  map[string]string // fixed nondet values (selftest / concrete mode)
	PanicsAreViolations bool
	BudgetAsViolation   bool
	MaxPreempt          int
	KindOverride        string // "exec": the next assertion is decided on executor-only evidence (write log, lockset)
	Summaries map[*ssa.Function]*ssa.Function
}

type drawRec struct {
	name string
	kind string
	v    value // *sym or concrete
}

// X is the active execution context (one interpreter per process; goroutines run one at a time).
var X *Exec

func NewExec(s *smt.Solver) *Exec {
	return &Exec{S: s, MaxSteps: 5_000_000, MaxDepth: 3000, MaxDecs: 100000,
		Reached: map[string]bool{}, ReachWant: map[string]bool{}, KFOpen: map[string]bool{}, KFSeen: map[string]string{},
		Unsupp: map[string]int{}, StubsHit: map[string]int{}, FuncsHit: map[*ssa.Function]int64{}, Notes: map[string]string{}}
}

func (x *Exec) beginPath(prefix []Decision) {
	x.prefix = prefix
	x.pos = 0
	x.trace = x.trace[:0]
	x.pending = nil
	x.steps = 0
	x.depth = 0
	x.draws = x.draws[:0]
	x.nvars = 0
	x.Notes = map[string]string{}
	smt.ResetIDs()
	x.S.Reset()
	if x.IntMode {
		// nothing global
	}
}

func unsupported(format string, args ...interface{}) {
	msg := fmt.Sprintf(format, args...)
	panic(pathEnd{endUnsupported, msg})
}

func (x *Exec) stub(name string) { x.StubsHit[name]++ }

// freshVar declares a new solver variable.
func (x *Exec) freshVar(hint string, s smt.Sort) *smt.Term {
	x.nvars++
	name := fmt.Sprintf("v%d_%s", x.nvars, sanitize(hint))
	v := smt.Var(name, s)
	x.S.Declare(v)
	return v
}

func sanitize(s string) string {
	var sb strings.Builder
	for _, c := range s {
		if c >= 'a' && c <= 'z' || c >= 'A' && c <= 'Z' || c >= '0' && c <= '9' || c == '_' {
			sb.WriteRune(c)
		} else {
			sb.WriteByte('_')
		}
	}
	return sb.String()
}

// nextDecision returns the recorded decision at this point if we are still inside the prefix.
func (x *Exec) nextDecision(kind string) (Decision, bool) {
	if x.pos < len(x.prefix) {
		d := x.prefix[x.pos]
		x.pos++
		if d.Kind != kind {
			panic(pathEnd{endUnsupported, fmt.Sprintf("nondeterministic replay: expected decision kind %s, got %s at %d", d.Kind, kind, x.pos-1)})
		}
		x.trace = append(x.trace, d)
		return d, true
	}
	if len(x.trace) >= x.MaxDecs {
		panic(pathEnd{endBudget, "decision budget exceeded"})
	}
	return Decision{}, false
}

func (x *Exec) pushAlt(d Decision) {
	alt := make([]Decision, len(x.trace)+1)
	copy(alt, x.trace)
	alt[len(x.trace)] = d
	x.pending = append(x.pending, alt)
}

func (x *Exec) check(assumps ...*smt.Term) smt.Result {
	r := x.S.Check(assumps...)
	return r
}

// Decide resolves a symbolic boolean into a concrete branch, forking the path when both sides are feasible.
func (x *Exec) Decide(c *smt.Term) bool {
	if c.IsConst {
		return c.CVal != 0
	}
	if d, ok := x.nextDecision("br"); ok {
		if d.Choice == 1 {
			x.S.Assert(c)
			return true
		}
		x.S.Assert(smt.Not(c))
		return false
	}
	nc := smt.Not(c)
	rt := x.check(c)
	if rt == smt.Unknown {
		panic(pathEnd{endUnknown, "branch feasibility unknown: " + x.S.LastErr})
	}
	if rt == smt.Unsat {
		// path condition is satisfiable by invariant, so the other side is feasible
		x.trace = append(x.trace, Decision{Kind: "br", Choice: 0})
		x.S.Assert(nc)
		return false
	}
	rf := x.check(nc)
	if rf == smt.Unknown {
		panic(pathEnd{endUnknown, "branch feasibility unknown: " + x.S.LastErr})
	}
	if rf == smt.Sat {
		x.pushAlt(Decision{Kind: "br", Choice: 0})
	}
	x.trace = append(x.trace, Decision{Kind: "br", Choice: 1})
	x.S.Assert(c)
	return true
}

// Feasible asks whether c can hold on the current path (no fork).
func (x *Exec) Feasible(c *smt.Term) bool {
	if c.IsConst {
		return c.CVal != 0
	}
	r := x.check(c)
	if r == smt.Unknown {
		panic(pathEnd{endUnknown, "feasibility unknown: " + x.S.LastErr})
	}
	return r == smt.Sat
}

// Guard forks a panicking path when cond (the panic condition) is feasible. Returns true if this path panics.
func (x *Exec) Guard(cond *smt.Term) bool {
	return x.Decide(cond)
}

// Choice is an n-way case split; every alternative is explored.
func (x *Exec) Choice(name string, n int) int {
	if n <= 0 {
		panic(pathEnd{endAssumeFalse, "choice over empty set"})
	}
	if v, ok := x.concrete[name]; ok {
		var i int
		fmt.Sscan(v, &i)
		x.draws = append(x.draws, drawRec{name, "choice", i})
		return i
	}
	var c int
	if d, ok := x.nextDecision("ch"); ok {
		c = d.Choice
	} else {
		for i := n - 1; i >= 1; i-- {
			x.pushAlt(Decision{Kind: "ch", Choice: i})
		}
		x.trace = append(x.trace, Decision{Kind: "ch", Choice: 0})
		c = 0
	}
	x.draws = append(x.draws, drawRec{name, "choice", c})
	return c
}

// Concretize enumerates the feasible values of a symbolic BV/Bool term (unsigned bit pattern returned).
func (x *Exec) Concretize(t *smt.Term) uint64 {
	if t.IsConst {
		return t.CVal
	}
	if t.Sort.K == smt.KBool {
		if x.Decide(t) {
			return 1
		}
		return 0
	}
	if t.Sort.K != smt.KBV || t.Sort.W > 64 {
		unsupported("concretize of sort %s", t.Sort)
	}
	var excl []string
	if d, ok := x.nextDecision("enum"); ok {
		if d.Val != "" {
			// fixed value
			v, _ := new(big.Int).SetString(d.Val, 10)
			x.S.Assert(smt.Eq(t, smt.BVConst(v.Uint64(), t.Sort.W)))
			return v.Uint64()
		}
		// resume enumeration with exclusions; replace the trace entry below
		x.trace = x.trace[:len(x.trace)-1]
		excl = d.Excl
	}
	for _, e := range excl {
		v, _ := new(big.Int).SetString(e, 10)
		x.S.Assert(smt.Not(smt.Eq(t, smt.BVConst(v.Uint64(), t.Sort.W))))
	}
	r := x.check()
	if r == smt.Unknown {
		panic(pathEnd{endUnknown, "enum unknown"})
	}
	if r == smt.Unsat {
		panic(pathEnd{endInfeasible, "enumeration exhausted"})
	}
	// get a model value for t: bind it to a fresh var so that it appears in the model
	probe := x.freshVar("probe", t.Sort)
	x.S.Assert(smt.Eq(probe, t))
	if x.check() != smt.Sat {
		panic(pathEnd{endUnknown, "enum probe"})
	}
	m, err := x.S.GetModel()
	if err != nil || m[probe.Lit] == nil {
		panic(pathEnd{endUnknown, fmt.Sprintf("enum model: %v", err)})
	}
	v := m[probe.Lit].Uint64()
	vs := fmt.Sprintf("%d", v)
	if len(excl) > 4096 {
		panic(pathEnd{endBudget, "enumeration of more than 4096 values"})
	}
	// alternative: same point, this value excluded too (only if another value exists: saves a whole re-execution)
	if x.check(smt.Not(smt.Eq(t, smt.BVConst(v, t.Sort.W)))) != smt.Unsat {
		nx := append(append([]string{}, excl...), vs)
		x.pushAlt(Decision{Kind: "enum", Excl: nx})
	}
	x.trace = append(x.trace, Decision{Kind: "enum", Val: vs})
	x.S.Assert(smt.Eq(t, smt.BVConst(v, t.Sort.W)))
	return v
}

// Assume restricts the path.
func (x *Exec) Assume(c value) {
	switch c := c.(type) {
	case bool:
		if !c {
			panic(pathEnd{endAssumeFalse, ""})
		}
	case *sym:
		x.S.Assert(c.t)
		r := x.check()
		if r == smt.Unsat {
			panic(pathEnd{endAssumeFalse, ""})
		}
		if r == smt.Unknown {
			panic(pathEnd{endUnknown, "assume: " + x.S.LastErr})
		}
	default:
		panic(fmt.Sprintf("assume: bad value %T", c))
	}
}

func (x *Exec) modelDraws(assumps ...*smt.Term) ([]Draw, error) {
	if r := x.check(assumps...); r != smt.Sat {
		return nil, fmt.Errorf("model query not sat: %v", r)
	}
	m, err := x.S.GetModel()
	if err != nil {
		return nil, err
	}
	var out []Draw
	for _, d := range x.draws {
		dr := Draw{Name: d.name, Kind: d.kind}
		switch v := d.v.(type) {
		case *sym:
			bv := m[v.t.Lit]
			if bv == nil {
				bv = big.NewInt(0)
			}
			dr.Val = formatModelVal(d.kind, bv)
		default:
			dr.Val = fmt.Sprint(v)
		}
		out = append(out, dr)
	}
	return out, nil
}

func formatModelVal(kind string, bv *big.Int) string {
	switch kind {
	case "int64", "int":
		return fmt.Sprint(int64(bv.Uint64()))
	case "int32":
		return fmt.Sprint(int32(bv.Uint64()))
	case "int16":
		return fmt.Sprint(int16(bv.Uint64()))
	case "int8":
		return fmt.Sprint(int8(bv.Uint64()))
	case "wint":
		return bv.String()
	}
	return bv.String()
}

// Violate records a violation with a model consistent with the current path and the extra assumptions.
func (x *Exec) Violate(kind, msg, kf string, assumps ...*smt.Term) {
	if kind == "assert" && x.KindOverride != "" {
		kind = x.KindOverride
	}
	draws, err := x.modelDraws(assumps...)
	if err != nil {
		panic(pathEnd{endUnknown, "violation model: " + err.Error()})
	}
	notes := map[string]string{}
	for k, v := range x.Notes {
		notes[k] = v
	}
	v := Violation{Harness: x.Harness, Instance: x.Instance, Msg: msg, Draws: draws, Kind: kind, KF: kf,
		Decisions: append([]Decision{}, x.trace...), Notes: notes}
	x.Viols = append(x.Viols, v)
}

// Assert checks c on every input of the current path.
func (x *Exec) Assert(c value, msg string) {
	x.AssertKF(c, msg, "", false)
}

// AssertKF: like Assert, but violations inside `region` are attributed to known finding kfid (if listed open).
func (x *Exec) AssertKF(c value, msg string, kfid string, region value) {
	var ct *smt.Term
	switch c := c.(type) {
	case bool:
		if c {
			return
		}
		ct = smt.False()
	case *sym:
		ct = c.t
	default:
		panic(fmt.Sprintf("assert: bad value %T", c))
	}
	var rt *smt.Term
	switch r := region.(type) {
	case bool:
		rt = smt.BoolConst(r)
	case *sym:
		rt = r.t
	}
	listed := kfid != "" && x.KFOpen[kfid]
	nc := smt.Not(ct)
	if !listed {
		r := x.check(nc)
		switch r {
		case smt.Unknown:
			panic(pathEnd{endUnknown, "assert " + msg + ": " + x.S.LastErr})
		case smt.Sat:
			x.Violate("assert", msg, "", nc)
			panic(pathEnd{endViolation, msg})
		}
	} else {
		out := smt.And(nc, smt.Not(rt))
		r := x.check(out)
		switch r {
		case smt.Unknown:
			panic(pathEnd{endUnknown, "assert " + msg + ": " + x.S.LastErr})
		case smt.Sat:
			x.Violate("assert", msg, "", out)
			panic(pathEnd{endViolation, msg})
		}
		in := smt.And(nc, rt)
		r = x.check(in)
		switch r {
		case smt.Unknown:
			panic(pathEnd{endUnknown, "assert(kf) " + msg + ": " + x.S.LastErr})
		case smt.Sat:
			if _, seen := x.KFSeen[kfid]; !seen {
				draws, _ := x.modelDraws(in)
				var parts []string
				for _, d := range draws {
					parts = append(parts, d.Name+"="+d.Val)
				}
				x.KFSeen[kfid] = msg + " [" + strings.Join(parts, " ") + "]"
			}
		}
	}
	// continue on the inputs where c holds
	if !ct.IsConst {
		x.S.Assert(ct)
		if r := x.check(); r != smt.Sat {
			panic(pathEnd{endAssumeFalse, "nothing left after assert"})
		}
	} else if ct.CVal == 0 {
		panic(pathEnd{endAssumeFalse, "known finding path"})
	}
}

func (x *Exec) Reach(label string, c value) {
	x.ReachWant[label] = true
	if x.Reached[label] {
		return
	}
	switch c := c.(type) {
	case bool:
		if c {
			x.Reached[label] = true
		}
	case *sym:
		if x.check(c.t) == smt.Sat {
			x.Reached[label] = true
		}
	}
}

func (x *Exec) sortedKeys(m map[string]bool) []string {
	var ks []string
	for k := range m {
		ks = append(ks, k)
	}
	sort.Strings(ks)
	return ks
}

package interp

// Pure-callee tabulation (DESIGN §2.2): a call f(r) of a pure character-class function with a symbolic argument
// whose value lies in 0..255 is not explored branch by branch; the real SSA of f is run concretely for every value
// of the domain (on the current tree, once per worker) and the results are used as one term.

import (
	"go/token"
	"go/types"
	"regexp"

	"golang.org/x/tools/go/ssa"
	"verif/symgo/smt"
)

var tabulateRe = regexp.MustCompile(`^(github\.com/ichiban/prolog/engine\.(is[A-Z][A-Za-z]*Char|isSingleQuotedCharacter)|unicode\.(IsSpace|IsUpper|IsLower|IsLetter|IsDigit|IsPrint|IsGraphic|IsControl|IsPunct|IsSymbol))$`)

type tabEntry struct {
	ok   bool
	vals [256]bool
}

var tabCache = map[*ssa.Function]*tabEntry{}

// tryTabulate returns (result, true) when the call was answered from a table.
func tryTabulate(i *interpreter, fn *ssa.Function, args []value) (value, bool) {
	if len(args) != 1 {
		return nil, false
	}
	s, isSym := args[0].(*sym)
	if !isSym || !kindIsInt(s.k) || X.IntMode {
		return nil, false
	}
	te, known := tabCache[fn]
	if !known {
		te = &tabEntry{}
		tabCache[fn] = te
		if tabulateRe.MatchString(fn.String()) && fn.Signature.Params().Len() == 1 && fn.Signature.Results().Len() == 1 {
			if b, ok := fn.Signature.Results().At(0).Type().Underlying().(*types.Basic); ok && b.Kind() == types.Bool {
				te.ok = true
				pk, _ := basicKind(fn.Signature.Params().At(0).Type())
				saveSteps := X.steps
				for v := 0; v < 256 && te.ok; v++ {
					func() {
						defer func() {
							if r := recover(); r != nil {
								if pe, isEnd := r.(pathEnd); isEnd {
									panic(pe)
								}
								// the callee panics for some value of the domain: not tabulated, explored for real
								te.ok = false
							}
						}()
						r := callSSA(i, nil, token.NoPos, fn, []value{concOf(pk, uint64(v))}, nil)
						b, isBool := r.(bool)
						if !isBool {
							te.ok = false
							return
						}
						te.vals[v] = b
					}()
				}
				X.steps = saveSteps
			}
		}
	}
	if !te.ok {
		return nil, false
	}
	w := kindWidth(s.k)
	var inDom *smt.Term
	if kindSigned(s.k) {
		inDom = smt.And(smt.BVSge(s.t, smt.BVConst(0, w)), smt.BVSle(s.t, smt.BVConst(255, w)))
	} else {
		inDom = smt.BVUle(s.t, smt.BVConst(255, w))
	}
	if !X.Decide(inDom) {
		return nil, false // outside the table's domain: explore the real body
	}
	X.stub("tabulated pure callee (0..255): " + fn.Name())
	// OR of the true-runs
	res := smt.False()
	for lo := 0; lo < 256; {
		if !te.vals[lo] {
			lo++
			continue
		}
		hi := lo
		for hi+1 < 256 && te.vals[hi+1] {
			hi++
		}
		var c *smt.Term
		if lo == hi {
			c = smt.Eq(s.t, smt.BVConst(uint64(lo), w))
		} else {
			c = smt.And(smt.BVUge(s.t, smt.BVConst(uint64(lo), w)), smt.BVUle(s.t, smt.BVConst(uint64(hi), w)))
		}
		res = smt.Or(res, c)
		lo = hi + 1
	}
	return symBool(res), true
}

// Copyright 2013 The Go Authors. All rights reserved.
// Use of this source code is governed by a BSD-style
// license that can be found in the LICENSE file.

package interp

// Custom hashtable atop map.
// For use when the key's equivalence relation is not consistent with ==.

// The Go specification doesn't address the atomicity of map operations.
// The FAQ states that an implementation is permitted to crash on
// concurrent map access.

import (
	"go/types"
)

type hashable interface {
	hash(t types.Type) int
	eq(t types.Type, x interface{}) bool
}

type entry struct {
	key   hashable
	value value
	next  *entry
}

// A hashtable atop the built-in map.  Since each bucket contains
// exactly one hash value, there's no need to perform hash-equality
// tests when walking the linked list.  Rehashing is done by the
// underlying map.
type hashmap struct {
	keyType types.Type
	table   map[int]*entry
	length  int // number of entries in map
}

// makeMap returns an empty initialized map of key type kt,
// preallocating space for reserve elements.
func makeMap(kt types.Type, reserve int64) value {
	if usesBuiltinMap(kt) {
		return make(map[value]value, reserve)
	}
	return &hashmap{keyType: kt, table: make(map[int]*entry, reserve)}
}

// delete removes the association for key k, if any.
func (m *hashmap) delete(k hashable) {
	if m != nil {
		hash := k.hash(m.keyType)
		head := m.table[hash]
		if head != nil {
			if k.eq(m.keyType, head.key) {
				m.table[hash] = head.next
				m.length--
				return
			}
			prev := head
			for e := head.next; e != nil; e = e.next {
				if k.eq(m.keyType, e.key) {
					prev.next = e.next
					m.length--
					return
				}
				prev = e
			}
		}
	}
}

// lookup returns the value associated with key k, if present, or
// value(nil) otherwise.
func (m *hashmap) lookup(k hashable) value {
	if m != nil {
		hash := k.hash(m.keyType)
		for e := m.table[hash]; e != nil; e = e.next {
			if k.eq(m.keyType, e.key) {
				return e.value
			}
		}
	}
	return nil
}

// insert updates the map to associate key k with value v.  If there
// was already an association for an eq() (though not necessarily ==)
// k, the previous key remains in the map and its associated value is
// updated.
func (m *hashmap) insert(k hashable, v value) {
	hash := k.hash(m.keyType)
	head := m.table[hash]
	for e := head; e != nil; e = e.next {
		if k.eq(m.keyType, e.key) {
			e.value = v
			return
		}
	}
	m.table[hash] = &entry{
		key:   k,
		value: v,
		next:  head,
	}
	m.length++
}

// len returns the number of key/value associations in the map.
func (m *hashmap) len() int {
	if m != nil {
		return m.length
	}
	return 0
}

// entries returns a rangeable map of entries.
func (m *hashmap) entries() map[int]*entry {
	if m != nil {
		return m.table
	}
	return nil
}

// Copyright 2013 The Go Authors. All rights reserved.
// Use of this source code is governed by a BSD-style
// license that can be found in the LICENSE file.
//
// Modified for symgo: every interpreted map is a *hashmap with deterministic (insertion-order) iteration,
// support for keys that contain symbolic scalars, and an undo log.

package interp

import (
	"go/types"
)

type entry struct {
	key     value
	value   value
	deleted bool
	hasSym  bool
}

type hashmap struct {
	keyType types.Type
	table   map[int][]*entry // live concrete-key entries by hash
	order   []*entry         // insertion order, including tombstones
	nsym    int              // number of live entries whose key contains symbolic scalars
	length  int
	cell    value            // identity of the map as one shared location for the lockset analysis (frame.go)
}

// makeMap returns an empty initialized map of key type kt.
func makeMap(kt types.Type, reserve int64) value {
	return &hashmap{keyType: kt, table: make(map[int][]*entry)}
}

// containsSym reports whether v (a map key: scalar, string, struct, array, iface, pointer) holds symbolic parts.
func containsSym(v value) bool {
	switch v := v.(type) {
	case *sym:
		return true
	case sstring:
		return true
	case structure:
		for _, f := range v {
			if containsSym(f) {
				return true
			}
		}
	case array:
		for _, f := range v {
			if containsSym(f) {
				return true
			}
		}
	case iface:
		return containsSym(v.v)
	}
	return false
}

func (m *hashmap) find(k value) *entry {
	if m == nil {
		return nil
	}
	if raceOn {
		recordMapAccess(m, false)
	}
	if containsSym(k) {
		for _, e := range m.order {
			if !e.deleted && decideBool(equalsV(m.keyType, k, e.key)) {
				return e
			}
		}
		return nil
	}
	h := hash(m.keyType, m.keyType, k)
	for _, e := range m.table[h] {
		if equals(m.keyType, k, e.key) {
			return e
		}
	}
	if m.nsym > 0 {
		for _, e := range m.order {
			if !e.deleted && e.hasSym && decideBool(equalsV(m.keyType, k, e.key)) {
				return e
			}
		}
	}
	return nil
}

func (m *hashmap) delete(k value) {
	e := m.find(k)
	if e == nil {
		return
	}
	logMapWrite(m)
	if raceOn {
		recordMapAccess(m, true)
	}
	logUndo(func() { m.undelete(e) })
	e.deleted = true
	m.length--
	if e.hasSym {
		m.nsym--
	} else {
		h := hash(m.keyType, m.keyType, e.key)
		b := m.table[h]
		for i := range b {
			if b[i] == e {
				m.table[h] = append(append([]*entry{}, b[:i]...), b[i+1:]...)
				break
			}
		}
	}
}

func (m *hashmap) undelete(e *entry) {
	e.deleted = false
	m.length++
	if e.hasSym {
		m.nsym++
	} else {
		h := hash(m.keyType, m.keyType, e.key)
		m.table[h] = append(m.table[h], e)
	}
}

// lookup returns the value associated with key k, if present, or value(nil) otherwise.
func (m *hashmap) lookup(k value) value {
	if e := m.find(k); e != nil {
		return e.value
	}
	return nil
}

func (m *hashmap) insert(k value, v value) {
	logMapWrite(m)
	if raceOn {
		recordMapAccess(m, true)
	}
	if e := m.find(k); e != nil {
		old := e.value
		logUndo(func() { e.value = old })
		e.value = v
		return
	}
	e := &entry{key: k, value: v, hasSym: containsSym(k)}
	m.order = append(m.order, e)
	m.length++
	if e.hasSym {
		m.nsym++
	} else {
		h := hash(m.keyType, m.keyType, k)
		m.table[h] = append(m.table[h], e)
	}
	logUndo(func() {
		// remove e again
		if !e.deleted {
			m.length--
			if e.hasSym {
				m.nsym--
			} else {
				h := hash(m.keyType, m.keyType, e.key)
				b := m.table[h]
				for i := range b {
					if b[i] == e {
						m.table[h] = append(append([]*entry{}, b[:i]...), b[i+1:]...)
						break
					}
				}
			}
		}
		for i := len(m.order) - 1; i >= 0; i-- {
			if m.order[i] == e {
				m.order = append(m.order[:i:i], m.order[i+1:]...)
				break
			}
		}
	})
}

func (m *hashmap) len() int {
	if m != nil {
		return m.length
	}
	return 0
}

// live returns the live entries in insertion order (a snapshot).
func (m *hashmap) live() []*entry {
	if m == nil {
		return nil
	}
	out := make([]*entry, 0, m.length)
	for _, e := range m.order {
		if !e.deleted {
			out = append(out, e)
		}
	}
	return out
}

// ---- undo log (heap snapshots, see snapshot.go) ----

var undoLog []func()
var undoActive bool

func logUndo(f func()) {
	if undoActive {
		undoLog = append(undoLog, f)
	}
}

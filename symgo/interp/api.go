package interp

// Driver API of the symgo engine: load a program (with overlay), initialise it once, explore paths.

import (
	"fmt"
	"go/token"
	"go/types"
	"os"
	"runtime"
	"runtime/debug"
	"sort"
	"strings"
	"time"

	"golang.org/x/tools/go/packages"
	"golang.org/x/tools/go/ssa"
	"golang.org/x/tools/go/ssa/ssautil"
)

var theInterp *interpreter
var extCache = map[*ssa.Function]externalFn{}

// Program is a loaded and initialised target program.
type Program struct {
	i       *interpreter
	Prog    *ssa.Program
	pkgs    map[string]*ssa.Package
	LoadS   float64
	InitS   float64
	initLog []string
}

// packages whose init functions are executed for real (others are skipped; see DESIGN §2.4)
var initAllow = map[string]bool{
	"unicode": true, "unicode/utf8": true, "strconv": true, "strings": true, "bytes": true, "io": true, "bufio": true,
	"math": true, "sort": true, "context": true, "io/fs": true, "internal/oserror": true, "errors": false, "math/bits": true,
	"github.com/ichiban/prolog/engine": true, "github.com/ichiban/prolog": true,
}

// LoadProgram loads patterns (relative to dir) with the overlay and builds SSA for everything.
func LoadProgram(dir string, patterns []string, overlay map[string][]byte, tags []string) (*Program, error) {
	t0 := time.Now()
	cfg := &packages.Config{
		Mode:       packages.LoadAllSyntax,
		Dir:        dir,
		Overlay:    overlay,
		BuildFlags: []string{"-tags=" + strings.Join(tags, ",")},
		Env:        append(os.Environ(), "GOFLAGS=-mod=mod", "GOPROXY=off", "GOSUMDB=off", "GOTOOLCHAIN=local", "CGO_ENABLED=0"),
	}
	initial, err := packages.Load(cfg, patterns...)
	if err != nil {
		return nil, err
	}
	var errs []string
	packages.Visit(initial, nil, func(p *packages.Package) {
		for _, e := range p.Errors {
			errs = append(errs, e.Error())
		}
	})
	if len(errs) > 0 {
		return nil, fmt.Errorf("load errors:\n%s", strings.Join(errs, "\n"))
	}
	prog, _ := ssautil.AllPackages(initial, ssa.InstantiateGenerics|ssa.SanityCheckFunctions*0)
	prog.Build()
	p := &Program{Prog: prog, pkgs: map[string]*ssa.Package{}}
	for _, sp := range prog.AllPackages() {
		p.pkgs[sp.Pkg.Path()] = sp
	}
	p.LoadS = time.Since(t0).Seconds()
	return p, nil
}

// Init creates the interpreter, runs the allowed package initialisers and starts the undo log.
func (p *Program) Init(x *Exec, embeds map[string]string) (err error) {
	t0 := time.Now()
	X = x
	sizes := &types.StdSizes{WordSize: 8, MaxAlign: 8}
	i := &interpreter{
		prog:       p.Prog,
		globals:    make(map[*ssa.Global]*value),
		sizes:      sizes,
		goroutines: 1,
	}
	theInterp = i
	p.i = i
	runtimePkg := p.Prog.ImportedPackage("runtime")
	if runtimePkg == nil {
		return fmt.Errorf("ssa.Program doesn't include runtime package")
	}
	i.runtimeErrorString = runtimePkg.Type("errorString").Object().Type()
	initReflect(i)
	for _, pkg := range p.Prog.AllPackages() {
		for _, m := range pkg.Members {
			if v, ok := m.(*ssa.Global); ok {
				cell := zero(mustDeref(v.Type()))
				i.globals[v] = &cell
			}
		}
	}
	// go:embed emulation
	for name, content := range embeds {
		idx := strings.LastIndex(name, ".")
		pkg := p.pkgs[name[:idx]]
		if pkg == nil {
			continue
		}
		if g, ok := pkg.Members[name[idx+1:]].(*ssa.Global); ok {
			*i.globals[g] = content
		}
	}
	undoActive = false
	resetScheduler()
	x.MaxSteps = 200_000_000
	defer func() {
		if r := recover(); r != nil {
			err = fmt.Errorf("init failed: %v", describePanic(r))
		}
	}()
	// run allowed inits in dependency order (each init calls its imports' inits; skipped ones return at once)
	var order []string
	for path := range p.pkgs {
		if initAllow[path] {
			order = append(order, path)
		}
	}
	sort.Slice(order, func(a, b int) bool {
		// std packages first, then engine, then root
		ra, rb := rank(order[a]), rank(order[b])
		if ra != rb {
			return ra < rb
		}
		return order[a] < order[b]
	})
	for _, path := range order {
		if f := p.pkgs[path].Func("init"); f != nil {
			call(i, nil, token.NoPos, f, nil)
		}
	}
	undoActive = true
	commitHeap()
	p.InitS = time.Since(t0).Seconds()
	return nil
}

func rank(path string) int {
	switch {
	case path == "github.com/ichiban/prolog":
		return 2
	case strings.HasPrefix(path, "github.com/"):
		return 1
	}
	return 0
}

func describePanic(r interface{}) string {
	switch r := r.(type) {
	case targetPanic:
		return "target panic: " + toString(r.v)
	case pathEnd:
		return r.String()
	case error:
		return r.Error()
	case string:
		return r
	}
	return fmt.Sprintf("%T %v", r, r)
}

// skipInit reports whether fn is a package initialiser that must not be executed.
func skipInit(fn *ssa.Function) bool {
	if fn.Name() != "init" || fn.Pkg == nil || fn.Signature.Recv() != nil || fn.Parent() != nil {
		return false
	}
	if fn.Pkg.Func("init") != fn {
		return false
	}
	return !initAllow[fn.Pkg.Pkg.Path()]
}

// FindFunc finds a package-level function.
func (p *Program) FindFunc(pkgPath, name string) *ssa.Function {
	pkg := p.pkgs[pkgPath]
	if pkg == nil {
		return nil
	}
	return pkg.Func(name)
}

// RunPath executes harness fn(args...) once along the given decision prefix and rolls the heap back.
func (p *Program) RunPath(x *Exec, fn *ssa.Function, args []int, prefix []Decision) (res PathResult) {
	X = x
	x.beginPath(prefix)
	var vargs []value
	for _, a := range args {
		vargs = append(vargs, a)
	}
	defer func() {
		r := recover()
		killGoroutines()
		rollbackHeap()
		res.Steps = x.steps
		res.Trace = append([]Decision{}, x.trace...)
		res.Pending = x.pending
		if r == nil {
			res.End = endDone
			return
		}
		switch r := r.(type) {
		case pathEnd:
			res.End = r.kind
			res.Msg = r.msg
			if r.kind == endUnsupported {
				x.Unsupp[r.msg]++
			}
			if r.kind == endBudget && x.BudgetAsViolation {
				// candidate for "the host is wedged / the stack is exhausted": decided by the native replay
				func() {
					defer func() { recover() }()
					x.Violate("budget", r.msg, "")
				}()
			}
		case targetPanic:
			res.End = endViolation
			res.Msg = "uncaught target panic: " + toString(r.v)
			x.recordPanic(res.Msg)
		case runtime.Error:
			res.End = endViolation
			res.Msg = "uncaught runtime error: " + r.Error()
			if strings.Contains(r.Error(), "interp.") {
				res.End = endUnsupported
				res.Msg = "interpreter: " + r.Error() + "\n" + string(debug.Stack())
				x.Unsupp[firstLine(res.Msg)]++
			} else {
				x.recordPanic(res.Msg)
			}
		case runtimeErrT:
			res.End = endViolation
			res.Msg = "uncaught runtime error: " + r.Error()
			x.recordPanic(res.Msg)
		case string:
			if isInternalPanic(r) {
				res.End = endUnsupported
				res.Msg = "interpreter: " + r
				x.Unsupp[res.Msg]++
			} else {
				res.End = endViolation
				res.Msg = "uncaught panic: " + r
				x.recordPanic(res.Msg)
			}
		default:
			res.End = endUnsupported
			res.Msg = fmt.Sprintf("interpreter panic %T: %v\n%s", r, r, debug.Stack())
			x.Unsupp[firstLine(res.Msg)]++
		}
	}()
	runMain(p.i, fn, vargs)
	return
}

func firstLine(s string) string {
	if i := strings.IndexByte(s, '\n'); i >= 0 {
		return s[:i]
	}
	return s
}

func (x *Exec) recordPanic(msg string) {
	// a Go panic escaping the harness is a violation of the harness contract (harnesses recover what the API recovers)
	func() {
		defer func() { recover() }()
		x.Violate("panic", msg, "")
	}()
}

func (k pathEndKind) IsInconclusive() bool {
	return k == endBudget || k == endUnsupported || k == endUnknown
}
func (k pathEndKind) IsViolation() bool { return k == endViolation }
func (k pathEndKind) Name() string      { return k.String() }

// FuncNamesHit lists executed functions whose package path has the prefix.
func (x *Exec) FuncNamesHit(prefix string) []string {
	var out []string
	for f := range x.FuncsHit {
		if f.Pkg != nil && strings.HasPrefix(f.Pkg.Pkg.Path(), prefix) {
			out = append(out, f.String())
		} else if f.Pkg == nil && strings.Contains(f.String(), prefix) {
			out = append(out, f.String())
		}
	}
	sort.Strings(out)
	return out
}

package interp

// External function resolution for symgo: harness intrinsics, library stubs/models, init skipping.

import (
	"fmt"
	"go/token"
	"go/types"
	"math"
	"math/big"
	"regexp"
	"strconv"
	"strings"
	"unicode/utf8"

	"golang.org/x/tools/go/ssa"
	"verif/symgo/smt"
)

var harnessPkgs = map[string]bool{
	"github.com/ichiban/prolog/engine": true,
	"github.com/ichiban/prolog":        true,
}

var symExternals map[string]externalFn
var intrinsics map[string]externalFn

func resolveExternal(fn *ssa.Function) externalFn {
	if skipInit(fn) {
		return func(fr *frame, args []value) value { return nil }
	}
	if fn.Pkg != nil && harnessPkgs[fn.Pkg.Pkg.Path()] && fn.Signature.Recv() == nil {
		if f, ok := intrinsics[fn.Name()]; ok {
			return f
		}
	}
	name := fn.String()
	if f, ok := symExternals[name]; ok {
		return f
	}
	if f, ok := externals[name]; ok && !removedExternals[name] {
		return f
	}
	return nil
}

func nondetOf(k types.BasicKind) externalFn {
	return func(fr *frame, args []value) value {
		name := strOf(args[0])
		return X.Nondet(name, k)
	}
}

func strOf(v value) string {
	switch v := v.(type) {
	case string:
		return v
	case sstring:
		n := normString(v)
		if s, ok := n.(string); ok {
			return s
		}
		unsupported("symbolic string where a concrete string is required")
	}
	panic(fmt.Sprintf("strOf: %T", v))
}

// strEnum is strOf for native library calls on text (number parsing): symbolic bytes are enumerated.
func strEnum(v value) string {
	if ss, ok := v.(sstring); ok {
		if _, conc := normString(ss).(string); !conc {
			X.stub("native text routine on a symbolic string: its bytes are enumerated")
			return concretizeString(ss)
		}
	}
	return strOf(v)
}

// Nondet creates a fresh symbolic input of basic kind k.
func (x *Exec) Nondet(name string, k types.BasicKind) value {
	kn := kindName(k)
	if cv, ok := x.concrete[name]; ok {
		v := parseConcrete(k, cv)
		x.draws = append(x.draws, drawRec{name, kn, v})
		return v
	}
	var v value
	switch {
	case k == types.Bool:
		v = &sym{k, x.freshVar(name, smt.Bool)}
	case kindIsFloat(k):
		bits := x.freshVar(name, smt.BV(kindWidth(k)))
		x.draws = append(x.draws, drawRec{name, kn, &sym{types.Uint64, bits}})
		return &sym{k, smt.FPFromBits(bits)}
	case x.IntMode:
		t := x.freshVar(name, smt.Int)
		w := kindWidth(k)
		lo, hi := new(big.Int), new(big.Int)
		if kindSigned(k) {
			lo.Neg(new(big.Int).Lsh(big.NewInt(1), uint(w-1)))
			hi.Sub(new(big.Int).Lsh(big.NewInt(1), uint(w-1)), big.NewInt(1))
		} else {
			hi.Sub(new(big.Int).Lsh(big.NewInt(1), uint(w)), big.NewInt(1))
		}
		x.S.Assert(smt.And(smt.IGe(t, smt.IntConst(lo)), smt.ILe(t, smt.IntConst(hi))))
		v = &sym{k, t}
	default:
		v = &sym{k, x.freshVar(name, smt.BV(kindWidth(k)))}
	}
	x.draws = append(x.draws, drawRec{name, kn, v})
	return v
}

func parseConcrete(k types.BasicKind, s string) value {
	switch {
	case k == types.Bool:
		return s == "1" || s == "true"
	case kindIsFloat(k):
		u, _ := strconv.ParseUint(s, 10, 64)
		return concOf(k, u)
	case kindSigned(k):
		i, _ := strconv.ParseInt(s, 10, 64)
		return concOf(k, uint64(i))
	default:
		u, _ := strconv.ParseUint(s, 10, 64)
		return concOf(k, u)
	}
}

// SetConcrete fixes nondet/choice values by name (selftest / concrete replay under the interpreter).
func (x *Exec) SetConcrete(m map[string]string) { x.concrete = m }

func boolArgs2(f func(a, b *smt.Term) *smt.Term) externalFn {
	return func(fr *frame, args []value) value {
		return symBool(f(truth(args[0]), truth(args[1])))
	}
}

// wide integers (specification arithmetic)
func wideOf(v value) *smt.Term {
	switch v := v.(type) {
	case *sym:
		if v.k == kWide {
			return v.t
		}
		if X.IntMode {
			return v.t
		}
		if kindSigned(v.k) {
			return v.t
		}
		return smt.ZeroExt(1, v.t)
	case *value:
		if v == nil {
			panic("nil wide")
		}
	}
	k, ok := dynKind(v)
	if !ok {
		panic(fmt.Sprintf("wideOf: %T", v))
	}
	b := signedBig(k, bitsOf(v))
	if X.IntMode {
		return smt.IntConst(b)
	}
	return smt.BVConstBig(b, 65)
}

// wideAlign sign-extends a and b to a common width w+extra.
func wideAlign(a, b *smt.Term, extra int) (*smt.Term, *smt.Term) {
	w := a.Sort.W
	if b.Sort.W > w {
		w = b.Sort.W
	}
	w += extra
	return smt.Resize(a, w, true), smt.Resize(b, w, true)
}

func mkWide(t *smt.Term) value { return &sym{kWide, t} }

func wide2(bv func(a, b *smt.Term) *smt.Term, in func(a, b *smt.Term) *smt.Term) externalFn {
	return func(fr *frame, args []value) value {
		a, b := wideOf(args[0]), wideOf(args[1])
		if X.IntMode {
			return mkWide(in(a, b))
		}
		a, b = wideAlign(a, b, 1)
		return mkWide(bv(a, b))
	}
}

func wideCmp(bv func(a, b *smt.Term) *smt.Term, in func(a, b *smt.Term) *smt.Term) externalFn {
	return func(fr *frame, args []value) value {
		a, b := wideOf(args[0]), wideOf(args[1])
		if X.IntMode {
			return symBool(in(a, b))
		}
		a, b = wideAlign(a, b, 0)
		return symBool(bv(a, b))
	}
}

func init() {
	intrinsics = map[string]externalFn{
		"nondetBool":    nondetOf(types.Bool),
		"nondetInt":     nondetOf(types.Int),
		"nondetInt8":    nondetOf(types.Int8),
		"nondetInt16":   nondetOf(types.Int16),
		"nondetInt32":   nondetOf(types.Int32),
		"nondetInt64":   nondetOf(types.Int64),
		"nondetUint8":   nondetOf(types.Uint8),
		"nondetUint16":  nondetOf(types.Uint16),
		"nondetUint32":  nondetOf(types.Uint32),
		"nondetUint64":  nondetOf(types.Uint64),
		"nondetFloat64": nondetOf(types.Float64),
		"nondetFloat32": nondetOf(types.Float32),
		"choice": func(fr *frame, args []value) value {
			return X.Choice(strOf(args[0]), int(asInt64(args[1])))
		},
		"assume": func(fr *frame, args []value) value { X.Assume(args[0]); return nil },
		"verify": func(fr *frame, args []value) value { X.Assert(args[0], strOf(args[1])); return nil },
		"verifyExec": func(fr *frame, args []value) value {
			X.KindOverride = "exec"
			defer func() { X.KindOverride = "" }()
			X.Assert(args[0], strOf(args[1]))
			return nil
		},
		"verifyKF": func(fr *frame, args []value) value {
			X.AssertKF(args[0], strOf(args[1]), strOf(args[2]), args[3])
			return nil
		},
		"reach": func(fr *frame, args []value) value { X.Reach(strOf(args[0]), args[1]); return nil },
		"note": func(fr *frame, args []value) value {
			X.Notes[strOf(args[0])] = describeValue(args[1])
			return nil
		},
		"symbolicRun": func(fr *frame, args []value) value { return true },
		"bAnd":        boolArgs2(smt.And),
		"bOr":         boolArgs2(smt.Or),
		"bImp":        boolArgs2(smt.Implies),
		"bIff":        boolArgs2(func(a, b *smt.Term) *smt.Term { return smt.Eq(a, b) }),
		"bNot":        func(fr *frame, args []value) value { return symBool(smt.Not(truth(args[0]))) },
		"bIte": func(fr *frame, args []value) value {
			return symBool(smt.Ite(truth(args[0]), truth(args[1]), truth(args[2])))
		},
		// ite on int64
		"iteI64": func(fr *frame, args []value) value {
			c := truth(args[0])
			return mkSym(types.Int64, smt.Ite(c, termOf(args[1], types.Int64), termOf(args[2], types.Int64)))
		},
		"iteF64": func(fr *frame, args []value) value {
			c := truth(args[0])
			return mkSym(types.Float64, smt.Ite(c, termOf(args[1], types.Float64), termOf(args[2], types.Float64)))
		},
		"setupOnce": extSetupOnce,
		"frameBegin": func(fr *frame, args []value) value {
			var allowed []string
			for _, a := range args[1].([]value) {
				allowed = append(allowed, strOf(a))
			}
			frameBegin(fr.i, args[0], allowed)
			return nil
		},
		"frameEnd":  func(fr *frame, args []value) value { return frameEnd() },
		"raceBegin": func(fr *frame, args []value) value { raceBegin(fr.i); return nil },
		"raceEnd":   func(fr *frame, args []value) value { return raceEnd() },
		"stepCount": func(fr *frame, args []value) value { return int(X.steps) },
		"drain": func(fr *frame, args []value) value { drainOthers(); return nil },
		// wide integer specification arithmetic
		"wI":   func(fr *frame, args []value) value { return mkWide(wideOf(args[0])) },
		"wAdd": wide2(smt.BVAdd, smt.IAdd),
		"wSub": wide2(smt.BVSub, smt.ISub),
		"wMul": func(fr *frame, args []value) value {
			a, b := wideOf(args[0]), wideOf(args[1])
			if X.IntMode {
				return mkWide(smt.IMul(a, b))
			}
			w := a.Sort.W + b.Sort.W
			return mkWide(smt.BVMul(smt.Resize(a, w, true), smt.Resize(b, w, true)))
		},
		"wDivT": wide2(smt.BVSDiv, smt.ITruncDiv),
		"wRemT": wide2(smt.BVSRem, func(a, b *smt.Term) *smt.Term { return smt.ISub(a, smt.IMul(smt.ITruncDiv(a, b), b)) }),
		"wDivF": wide2(func(a, b *smt.Term) *smt.Term {
			q := smt.BVSDiv(a, b)
			r := smt.BVSRem(a, b)
			z := smt.BVConstBig(big.NewInt(0), a.Sort.W)
			adj := smt.And(smt.Not(smt.Eq(r, z)), smt.Not(smt.Eq(smt.BVSlt(r, z), smt.BVSlt(b, z))))
			return smt.Ite(adj, smt.BVSub(q, smt.BVConstBig(big.NewInt(1), a.Sort.W)), q)
		}, smt.IFloorDiv),
		"wModF": wide2(func(a, b *smt.Term) *smt.Term {
			r := smt.BVSRem(a, b)
			z := smt.BVConstBig(big.NewInt(0), a.Sort.W)
			adj := smt.And(smt.Not(smt.Eq(r, z)), smt.Not(smt.Eq(smt.BVSlt(r, z), smt.BVSlt(b, z))))
			return smt.Ite(adj, smt.BVAdd(r, b), r)
		}, func(a, b *smt.Term) *smt.Term { return smt.ISub(a, smt.IMul(smt.IFloorDiv(a, b), b)) }),
		"wShl": func(fr *frame, args []value) value {
			a := wideOf(args[0])
			if X.IntMode {
				unsupported("wShl in int mode")
			}
			return mkWide(smt.BVShl(smt.Resize(a, 130, true), smt.Resize(termOf(args[1], types.Int64), 130, false)))
		},
		"wTo64": func(fr *frame, args []value) value { // low 64 bits (callers establish wFits64 first)
			a := wideOf(args[0])
			if X.IntMode {
				return mkSym(types.Int64, a)
			}
			return mkSym(types.Int64, smt.Resize(a, 64, true))
		},
		"wNeg": func(fr *frame, args []value) value {
			a := wideOf(args[0])
			if X.IntMode {
				return mkWide(smt.INeg(a))
			}
			return mkWide(smt.BVNeg(smt.Resize(a, a.Sort.W+1, true)))
		},
		"wAbs": func(fr *frame, args []value) value {
			a := wideOf(args[0])
			if X.IntMode {
				return mkWide(smt.IAbs(a))
			}
			a = smt.Resize(a, a.Sort.W+1, true)
			return mkWide(smt.Ite(smt.BVSlt(a, smt.BVConstBig(big.NewInt(0), a.Sort.W)), smt.BVNeg(a), a))
		},
		"wEq": wideCmp(func(a, b *smt.Term) *smt.Term { return smt.Eq(a, b) }, func(a, b *smt.Term) *smt.Term { return smt.Eq(a, b) }),
		"wLt": wideCmp(smt.BVSlt, smt.ILt),
		"wLe": wideCmp(smt.BVSle, smt.ILe),
		"wFits64": func(fr *frame, args []value) value {
			a := wideOf(args[0])
			if X.IntMode {
				lo := new(big.Int).Neg(new(big.Int).Lsh(big.NewInt(1), 63))
				hi := new(big.Int).Sub(new(big.Int).Lsh(big.NewInt(1), 63), big.NewInt(1))
				return symBool(smt.And(smt.IGe(a, smt.IntConst(lo)), smt.ILe(a, smt.IntConst(hi))))
			}
			if a.Sort.W <= 64 {
				return true
			}
			return symBool(smt.Eq(a, smt.SignExt(a.Sort.W-64, smt.Extract(63, 0, a))))
		},
		// float helpers (bit-level identity, classification) that must not fork
		"fSame": func(fr *frame, args []value) value { // same IEEE value: both NaN, or bitwise equal
			a, b := termOf(args[0], types.Float64), termOf(args[1], types.Float64)
			return symBool(smt.Or(smt.And(smt.FPIsNaN(a), smt.FPIsNaN(b)), smt.Eq(a, b)))
		},
		"fIsInf": func(fr *frame, args []value) value { return symBool(smt.FPIsInf(termOf(args[0], types.Float64))) },
		"fIsNaN": func(fr *frame, args []value) value { return symBool(smt.FPIsNaN(termOf(args[0], types.Float64))) },
		"fIsZero": func(fr *frame, args []value) value {
			return symBool(smt.FPIsZero(termOf(args[0], types.Float64)))
		},
		"fOfInt": func(fr *frame, args []value) value { // exact-ish spec: RNE conversion of int64
			return mkSym(types.Float64, smt.FPFromSBV(termOf(args[0], types.Int64), 64))
		},
	}

	symExternals = map[string]externalFn{
		// --- math intrinsics ---
		"math.Abs":   mathUnary(smt.FPAbs, math.Abs),
		"math.Sqrt":  mathUnary(smt.FPSqrt, math.Sqrt),
		"math.sqrt":  mathUnary(smt.FPSqrt, math.Sqrt),
		"math.Floor": mathUnary(func(a *smt.Term) *smt.Term { return smt.FPRound("RTN", a) }, math.Floor),
		"math.Ceil":  mathUnary(func(a *smt.Term) *smt.Term { return smt.FPRound("RTP", a) }, math.Ceil),
		"math.Trunc": mathUnary(func(a *smt.Term) *smt.Term { return smt.FPRound("RTZ", a) }, math.Trunc),
		"math.Round": mathUnary(func(a *smt.Term) *smt.Term { return smt.FPRound("RNA", a) }, math.Round),
		"math.floor": mathUnary(func(a *smt.Term) *smt.Term { return smt.FPRound("RTN", a) }, math.Floor),
		"math.ceil":  mathUnary(func(a *smt.Term) *smt.Term { return smt.FPRound("RTP", a) }, math.Ceil),
		"math.trunc": mathUnary(func(a *smt.Term) *smt.Term { return smt.FPRound("RTZ", a) }, math.Trunc),
		"math.IsNaN": func(fr *frame, args []value) value {
			if s, ok := args[0].(*sym); ok {
				return symBool(smt.FPIsNaN(s.t))
			}
			return math.IsNaN(args[0].(float64))
		},
		"math.IsInf": func(fr *frame, args []value) value {
			if s, ok := args[0].(*sym); ok {
				sign := int(asInt64(args[1]))
				inf := smt.FPIsInf(s.t)
				switch {
				case sign > 0:
					return symBool(smt.And(inf, smt.Not(smt.FPIsNeg(s.t))))
				case sign < 0:
					return symBool(smt.And(inf, smt.FPIsNeg(s.t)))
				}
				return symBool(inf)
			}
			return math.IsInf(args[0].(float64), int(asInt64(args[1])))
		},
		"math.Float64bits": func(fr *frame, args []value) value {
			if s, ok := args[0].(*sym); ok {
				// bits of a symbolic float: fresh BV constrained by to_fp (NaN payload unconstrained)
				X.stub("math.Float64bits(symbolic) = fresh bits with to_fp(bits)==x")
				b := X.freshVar("f64bits", smt.BV64)
				X.S.Assert(smt.Eq(smt.FPFromBits(b), s.t))
				return &sym{types.Uint64, b}
			}
			return math.Float64bits(args[0].(float64))
		},
		"math.Float64frombits": func(fr *frame, args []value) value {
			if s, ok := args[0].(*sym); ok {
				return &sym{types.Float64, smt.FPFromBits(s.t)}
			}
			return math.Float64frombits(args[0].(uint64))
		},
		"math.Pow":   mathUF2("Pow", math.Pow),
		"math.Atan2": mathUF2("Atan2", math.Atan2),
		"math.Mod":   mathUF2("Mod", math.Mod),
		"math.Sin":   mathUF1("Sin", math.Sin),
		"math.Cos":   mathUF1("Cos", math.Cos),
		"math.Tan":   mathUF1("Tan", math.Tan),
		"math.Asin":  mathUF1("Asin", math.Asin),
		"math.Acos":  mathUF1("Acos", math.Acos),
		"math.Atan":  mathUF1("Atan", math.Atan),
		"math.Exp":   mathUF1("Exp", math.Exp),
		"math.Log":   mathUF1("Log", math.Log),
		"math.Log2":  mathUF1("Log2", math.Log2),
		"math.Modf": func(fr *frame, args []value) value {
			if isSym(args[0]) {
				unsupported("math.Modf(symbolic)")
			}
			a, b := math.Modf(args[0].(float64))
			return tuple{a, b}
		},

		// --- sync: no-ops until the scheduler takes over (sched.go replaces these when goroutines exist) ---
		"(*sync.Mutex).Lock":      extMutexLock,
		"(*sync.Mutex).Unlock":    extMutexUnlock,
		"(*sync.RWMutex).Lock":    extMutexLock,
		"(*sync.RWMutex).Unlock":  extMutexUnlock,
		"(*sync.RWMutex).RLock":   extMutexRLock,
		// sync.Map: modelled as one map guarded by its own lock (every method is atomic); the map is kept in the struct's
		// `dirty` field so that it is part of the heap graph (write frame, lockset)
		"(*sync.Map).Load": func(fr *frame, args []value) value {
			yield()
			v := syncMapOf(args[0]).lookup(args[1])
			if v == nil {
				return tuple{iface{}, false}
			}
			return tuple{v, true}
		},
		"(*sync.Map).Store": func(fr *frame, args []value) value {
			yield()
			syncMapOf(args[0]).insert(args[1], args[2])
			return nil
		},
		"(*sync.Map).LoadOrStore": func(fr *frame, args []value) value {
			yield()
			m := syncMapOf(args[0])
			if v := m.lookup(args[1]); v != nil {
				return tuple{v, true}
			}
			m.insert(args[1], args[2])
			return tuple{args[2], false}
		},
		"(*sync.Map).LoadAndDelete": func(fr *frame, args []value) value {
			yield()
			m := syncMapOf(args[0])
			v := m.lookup(args[1])
			if v == nil {
				return tuple{iface{}, false}
			}
			m.delete(args[1])
			return tuple{v, true}
		},
		"(*sync.Map).Delete": func(fr *frame, args []value) value {
			yield()
			syncMapOf(args[0]).delete(args[1])
			return nil
		},
		"(*sync.Map).Range": func(fr *frame, args []value) value {
			yield()
			for _, e := range syncMapOf(args[0]).live() {
				if !call(fr.i, fr, token.NoPos, args[1], []value{e.key, e.value}).(bool) {
					break
				}
			}
			return nil
		},
		"(*sync.RWMutex).RUnlock": extMutexRUnlock,
		"(*sync.Once).Do": func(fr *frame, args []value) value {
			// struct{done uint32/atomic; m Mutex}: use first field as flag
			st := (*args[0].(*value)).(structure)
			if f, ok := st[0].(structure); ok { // atomic.Uint32{_ noCopy; v uint32}
				if asInt64(f[len(f)-1]) != 0 {
					return nil
				}
				logStore(&f[len(f)-1])
				f[len(f)-1] = uint32(1)
			} else {
				if asInt64(st[0]) != 0 {
					return nil
				}
				logStore(&st[0])
				st[0] = uint32(1)
			}
			call(fr.i, fr, token.NoPos, args[1], nil)
			return nil
		},
		"sync/atomic.AddInt64": func(fr *frame, args []value) value {
			schedPoint("atomic.AddInt64", args[0])
			p := args[0].(*value)
			recordAccess(p, true, true)
			logStore(p)
			nv := binop(token.ADD, types.Typ[types.Int64], *p, args[1])
			*p = nv
			return nv
		},
		"sync/atomic.LoadInt64": func(fr *frame, args []value) value {
			schedPoint("atomic.LoadInt64", args[0])
			return *args[0].(*value)
		},
		"sync/atomic.StoreInt64": func(fr *frame, args []value) value {
			schedPoint("atomic.StoreInt64", args[0])
			p := args[0].(*value)
			logStore(p)
			*p = args[1]
			return nil
		},

		// --- runtime / debug ---
		"runtime.ReadMemStats": func(fr *frame, args []value) value {
			X.stub("runtime.ReadMemStats: leaves MemStats zero")
			return nil
		},
		"runtime/debug.SetMemoryLimit": func(fr *frame, args []value) value {
			// free memory is arbitrary: both outcomes of engine.makeSlice are explored
			X.stub("debug.SetMemoryLimit: returns an arbitrary non-negative limit (symbolic)")
			v := X.freshVar("memlimit", smt.BV64)
			X.S.Assert(smt.BVSge(v, smt.BVConst(0, 64)))
			return &sym{types.Int64, v}
		},
		"runtime.NumGoroutine": func(fr *frame, args []value) value { return numGoroutines() },
		"runtime.Gosched":      func(fr *frame, args []value) value { return nil },
		"runtime.KeepAlive":    func(fr *frame, args []value) value { return nil },
		"runtime.SetFinalizer": func(fr *frame, args []value) value { return nil },

		// --- unsafe string helpers used by strings.Builder / engine lexer ---
		"(*strings.Builder).String": func(fr *frame, args []value) value {
			// Builder{addr *Builder; buf []byte}
			st := (*args[0].(*value)).(structure)
			buf := st[1].([]value)
			return bytesToStringValue(buf)
		},
		"(*strings.Builder).copyCheck": func(fr *frame, args []value) value { return nil },
		"(*github.com/ichiban/prolog/engine.Lexer).chunk": nil, // filled lazily (needs field layout); see extLexerChunk

		// --- errors ---
		"errors.Is": extErrorsIs,
		"errors.As": extErrorsAs,

		// --- sort ---
		"sort.Slice":       extSortSlice(false),
		"sort.SliceStable": extSortSlice(true),

		// --- fmt ---
		"fmt.Sprintf": func(fr *frame, args []value) value {
			return sprintfValue(fr, strOf(args[0]), args[1].([]value))
		},
		"fmt.Errorf": func(fr *frame, args []value) value {
			msg := sprintfValue(fr, strOf(args[0]), args[1].([]value))
			return makeErrorString(fr.i, strOf(msg))
		},
		"fmt.Sprint": func(fr *frame, args []value) value {
			return sprintValue(fr, args[0].([]value))
		},
		"fmt.Fprint": func(fr *frame, args []value) value {
			s := sprintValue(fr, args[1].([]value))
			return writeTo(fr, args[0].(iface), s)
		},
		"fmt.Fprintf": func(fr *frame, args []value) value {
			s := sprintfValue(fr, strOf(args[1]), args[2].([]value))
			return writeTo(fr, args[0].(iface), s)
		},
		"fmt.Fprintln": func(fr *frame, args []value) value {
			s := symStringBinop(token.ADD, sprintValue(fr, args[1].([]value)), "\n")
			return writeTo(fr, args[0].(iface), s)
		},

		// --- strconv on concrete values ---
		"strconv.FormatFloat": func(fr *frame, args []value) value {
			if s, ok := args[0].(*sym); ok {
				// number text is outside every claim (DESIGN §7): the path continues with ONE solver-chosen value
				// of the float (an under-approximation of this path, recorded as a stub)
				X.stub("strconv.FormatFloat(symbolic): path restricted to one solver-chosen value")
				bits := X.freshVar("fmtbits", smt.BV64)
				X.S.Assert(smt.Eq(smt.FPFromBits(bits), s.t))
				if X.check() != smt.Sat {
					panic(pathEnd{endUnknown, "FormatFloat witness"})
				}
				m, err := X.S.GetModel()
				if err != nil || m[bits.Lit] == nil {
					panic(pathEnd{endUnknown, "FormatFloat model"})
				}
				v := m[bits.Lit].Uint64()
				X.S.Assert(smt.Eq(bits, smt.BVConst(v, 64)))
				args = append([]value{math.Float64frombits(v)}, args[1:]...)
			}
			return strconv.FormatFloat(args[0].(float64), byte(asInt64(args[1])), int(asInt64(args[2])), int(asInt64(args[3])))
		},
		"strconv.FormatInt": func(fr *frame, args []value) value {
			v := witnessInt(args[0], types.Int64)
			return strconv.FormatInt(v.(int64), int(asInt64(args[1])))
		},
		"strconv.Itoa": func(fr *frame, args []value) value {
			v := witnessInt(args[0], types.Int)
			return strconv.Itoa(v.(int))
		},
		"strconv.ParseFloat": func(fr *frame, args []value) value {
			f, err := strconv.ParseFloat(strEnum(args[0]), int(asInt64(args[1])))
			if err != nil {
				return tuple{f, makeErrorString(fr.i, err.Error())}
			}
			return tuple{f, iface{}}
		},

		// --- regexp (native on concrete strings) ---
		"regexp.MustCompile": func(fr *frame, args []value) value {
			re := regexp.MustCompile(strOf(args[0]))
			var v value = nativeObj{re}
			return &v
		},
		"(*regexp.Regexp).ReplaceAllStringFunc": func(fr *frame, args []value) value {
			re := (*args[0].(*value)).(nativeObj).o.(*regexp.Regexp)
			src, isConc := args[1].(string)
			if !isConc {
				// regexp cannot be encoded: the symbolic bytes of the subject are case-split (enumeration, stated)
				X.stub("regexp on a symbolic string: its bytes are enumerated")
				src = concretizeString(args[1].(sstring))
			}
			return re.ReplaceAllStringFunc(src, func(m string) string {
				return strOf(call(fr.i, fr, token.NoPos, args[2], []value{m}))
			})
		},
		"(*regexp.Regexp).MatchString": func(fr *frame, args []value) value {
			re := (*args[0].(*value)).(nativeObj).o.(*regexp.Regexp)
			return re.MatchString(strOf(args[1]))
		},

		// --- math/big (native on concrete values) ---
		"math/big.ParseFloat": func(fr *frame, args []value) value {
			f, b, err := big.ParseFloat(strEnum(args[0]), int(asInt64(args[1])), uint(asInt64(args[2])), big.RoundingMode(asInt64(args[3])))
			var fv value = nativeObj{f}
			if err != nil {
				return tuple{(*value)(nil), b, makeErrorString(fr.i, err.Error())}
			}
			return tuple{&fv, b, iface{}}
		},
		"math/big.NewFloat": func(fr *frame, args []value) value {
			if isSym(args[0]) {
				unsupported("big.NewFloat(symbolic)")
			}
			var fv value = nativeObj{big.NewFloat(args[0].(float64))}
			return &fv
		},
		"(*math/big.Float).Mul": func(fr *frame, args []value) value {
			z := bigF(args[0])
			z.Mul(bigF(args[1]), bigF(args[2]))
			return args[0]
		},
		"(*math/big.Float).Int64": func(fr *frame, args []value) value {
			i, acc := bigF(args[0]).Int64()
			return tuple{i, int8(acc)}
		},
		"(*math/big.Float).Float64": func(fr *frame, args []value) value {
			f, acc := bigF(args[0]).Float64()
			return tuple{f, int8(acc)}
		},
		"(*math/big.Float).IsInt": func(fr *frame, args []value) value { return bigF(args[0]).IsInt() },

		// --- byte/strings assembly-backed helpers: concrete natively, symbolic by loops ---
		"strings.Compare":                  extStringCompare,
		"internal/bytealg.CompareString":   extStringCompare,
		"internal/stringslite.Clone": func(fr *frame, args []value) value { return args[0] }, // strings are immutable values here
		"strings.Clone":              func(fr *frame, args []value) value { return args[0] },
		"internal/bytealg.MakeNoZero": func(fr *frame, args []value) value {
			n := int(asInt64(args[0]))
			out := make([]value, n)
			for i := range out {
				out[i] = uint8(0)
			}
			return out
		},
		"internal/bytealg.IndexByteString": func(fr *frame, args []value) value {
			return indexByteValue(toSString(args[0]), args[1])
		},
		"internal/bytealg.IndexByte": func(fr *frame, args []value) value {
			return indexByteValue(sstring(args[0].([]value)), args[1])
		},
		"strings.IndexByte": func(fr *frame, args []value) value {
			return indexByteValue(toSString(args[0]), args[1])
		},
		"bytes.IndexByte": func(fr *frame, args []value) value {
			return indexByteValue(sstring(args[0].([]value)), args[1])
		},
		"bytes.Equal": func(fr *frame, args []value) value {
			return symStringBinop(token.EQL, normString(sstring(args[0].([]value))), normString(sstring(args[1].([]value))))
		},
		"strings.Index": func(fr *frame, args []value) value {
			a, aok := args[0].(string)
			b, bok := args[1].(string)
			if aok && bok {
				return strings.Index(a, b)
			}
			sa, sb := toSString(args[0]), toSString(args[1])
			for i := 0; i+len(sb) <= len(sa); i++ {
				if decideBool(symStringBinop(token.EQL, normString(sa[i:i+len(sb):i+len(sb)]), normString(sb))) {
					return i
				}
			}
			return -1
		},
		"internal/bytealg.CountString": func(fr *frame, args []value) value {
			a, aok := args[0].(string)
			if !aok || isSym(args[1]) {
				unsupported("bytealg.CountString on symbolic string")
			}
			return strings.Count(a, string([]byte{args[1].(byte)}))
		},
		"unicode/utf8.DecodeRuneInString": nil, // use the real SSA body
		"unicode/utf8.RuneCountInString": func(fr *frame, args []value) value {
			if s, ok := args[0].(string); ok {
				return utf8.RuneCountInString(s)
			}
			ss := args[0].(sstring)
			n := 0
			for i := 0; i < len(ss); {
				_, sz := decodeRuneAt(ss, i)
				i += sz
				n++
			}
			return n
		},
		"io/fs.ReadFile": func(fr *frame, args []value) value {
			// a file system value that implements fs.ReadFileFS itself (an in-memory one provided by a harness) is used
			// as fs.ReadFile would use it; the operating system is not modelled: through any other fs.FS every file is absent
			if fsys, ok := args[0].(iface); ok && fsys.t != nil && hasMethod(fr.i, fsys.t, "ReadFile") {
				X.stub("io/fs.ReadFile: delegated to the fs value's own ReadFile")
				return callMethodByName(fr, fsys, "ReadFile", args[1])
			}
			X.stub("io/fs.ReadFile: every file is absent")
			return tuple{[]value(nil), makeErrorString(fr.i, "file does not exist")}
		},
		"os.Exit": func(fr *frame, args []value) value {
			unsupported("os.Exit called")
			return nil
		},
	}
	for k, v := range symExternals {
		if v == nil {
			delete(symExternals, k)
			removedExternals[k] = true
		}
	}
	for _, k := range []string{"unicode/utf8.DecodeRuneInString", "strings.Replace", "strings.Count", "strings.ToLower", "strings.EqualFold", "math.Min", "math.Copysign", "math.Ldexp", "strconv.Itoa", "strconv.Atoi", "sort.Ints", "sort.Strings", "sort.Float64s", "time.Sleep", "math.Exp", "math.Log"} {
		removedExternals[k] = true
	}
}

// removedExternals: entries of the stock externals table that symgo does not use (the real SSA body runs instead).
var removedExternals = map[string]bool{}

// extStringCompare: -1, 0, +1 by lexicographic byte order; symbolic bytes give a symbolic int (no fork).
func extStringCompare(fr *frame, args []value) value {
	a, aok := args[0].(string)
	b, bok := args[1].(string)
	if aok && bok {
		return strings.Compare(a, b)
	}
	lt := truth(symStringBinop(token.LSS, args[0], args[1]))
	eq := truth(symStringBinop(token.EQL, args[0], args[1]))
	m1 := termOf(int(-1), types.Int)
	z := termOf(int(0), types.Int)
	p1 := termOf(int(1), types.Int)
	return mkSym(types.Int, smt.Ite(lt, m1, smt.Ite(eq, z, p1)))
}

// witnessInt: number text is outside every claim (DESIGN §7): a symbolic integer that is about to be formatted is
// replaced by ONE solver-chosen value on this path (an under-approximation, recorded as a stub).
func witnessInt(v value, k types.BasicKind) value {
	s, ok := v.(*sym)
	if !ok {
		return v
	}
	if X.IntMode {
		unsupported("formatting a symbolic integer in int mode")
	}
	X.stub("formatting a symbolic integer: path restricted to one solver-chosen value")
	probe := X.freshVar("fmtint", s.t.Sort)
	X.S.Assert(smt.Eq(probe, s.t))
	if X.check() != smt.Sat {
		panic(pathEnd{endUnknown, "FormatInt witness"})
	}
	m, err := X.S.GetModel()
	if err != nil || m[probe.Lit] == nil {
		panic(pathEnd{endUnknown, "FormatInt model"})
	}
	bits := m[probe.Lit].Uint64()
	X.S.Assert(smt.Eq(probe, smt.BVConst(bits, s.t.Sort.W)))
	return concOf(k, bits)
}

// concretizeString enumerates the symbolic bytes of s on this path.
func concretizeString(s sstring) string {
	bs := make([]byte, len(s))
	for i, b := range s {
		bs[i] = concretize(b).(uint8)
	}
	return string(bs)
}

type nativeObj struct{ o interface{} }

func bigF(v value) *big.Float { return (*v.(*value)).(nativeObj).o.(*big.Float) }

func bytesToStringValue(buf []value) value {
	out := make(sstring, len(buf))
	copy(out, buf)
	return normString(out)
}

func mathUnary(sf func(*smt.Term) *smt.Term, cf func(float64) float64) externalFn {
	return func(fr *frame, args []value) value {
		if s, ok := args[0].(*sym); ok {
			return mkSym(types.Float64, sf(s.t))
		}
		return cf(args[0].(float64))
	}
}

var ufDeclared = map[string]bool{}

func mathUF1(name string, cf func(float64) float64) externalFn {
	return func(fr *frame, args []value) value {
		if _, ok := args[0].(*sym); ok {
			X.stub("math." + name + "(symbolic) = unconstrained float")
			return &sym{types.Float64, smt.FPFromBits(X.freshVar("uf_"+name, smt.BV64))}
		}
		return cf(args[0].(float64))
	}
}

func mathUF2(name string, cf func(a, b float64) float64) externalFn {
	return func(fr *frame, args []value) value {
		if isSym(args[0]) || isSym(args[1]) {
			X.stub("math." + name + "(symbolic) = unconstrained float")
			return &sym{types.Float64, smt.FPFromBits(X.freshVar("uf_"+name, smt.BV64))}
		}
		return cf(args[0].(float64), args[1].(float64))
	}
}

func indexByteValue(s sstring, c value) value {
	for i, b := range s {
		if decideBool(symEqualsScalar(b, c)) {
			return i
		}
	}
	return -1
}

func describeValue(v value) string {
	switch v := v.(type) {
	case iface:
		return describeValue(v.v)
	}
	return toString(v)
}

// makeErrorString builds an error value of type *errors.errorString.
func makeErrorString(i *interpreter, msg string) value {
	for _, p := range i.prog.AllPackages() {
		if p.Pkg.Path() == "errors" {
			t := p.Type("errorString").Object().Type()
			var st value = structure{msg}
			return iface{t: types.NewPointer(t), v: &st}
		}
	}
	panic("errors package missing")
}

// callMethodByName invokes an interpreted method on an interface value.
func callMethodByName(fr *frame, recv iface, name string, args ...value) value {
	ms := fr.i.prog.MethodSets.MethodSet(recv.t)
	for k := 0; k < ms.Len(); k++ {
		sel := ms.At(k)
		if sel.Obj().Name() == name {
			f := fr.i.prog.MethodValue(sel)
			return call(fr.i, fr, token.NoPos, f, append([]value{recv.v}, args...))
		}
	}
	unsupported("method %s not found on %s", name, recv.t)
	return nil
}

func hasMethod(i *interpreter, t types.Type, name string) bool {
	ms := i.prog.MethodSets.MethodSet(t)
	for k := 0; k < ms.Len(); k++ {
		if ms.At(k).Obj().Name() == name {
			return true
		}
	}
	return false
}

func writeTo(fr *frame, w iface, s value) value {
	ss := toSString(s)
	buf := make([]value, len(ss))
	copy(buf, ss)
	return callMethodByName(fr, w, "Write", buf)
}

// formatArg renders one fmt argument with a verb.
func formatArg(fr *frame, verb string, a value) value {
	itf, ok := a.(iface)
	if !ok {
		return fmt.Sprintf("%v", toString(a))
	}
	if itf.t == nil {
		return "<nil>"
	}
	last := verb[len(verb)-1]
	if last == 'T' {
		return itf.t.String()
	}
	if last == 'v' || last == 's' {
		if !strings.Contains(verb, "#") {
			if hasMethod(fr.i, itf.t, "Error") {
				return callMethodByName(fr, itf, "Error")
			}
			if hasMethod(fr.i, itf.t, "String") {
				return callMethodByName(fr, itf, "String")
			}
		} else if hasMethod(fr.i, itf.t, "GoString") {
			return callMethodByName(fr, itf, "GoString")
		}
	}
	switch v := itf.v.(type) {
	case sstring:
		return v
	case *sym:
		// small symbolic integers: enumerate (exact); wider ones are rendered opaquely - formatted text of a
		// symbolic number is outside every claim (number text, DESIGN §7) and only occurs in error messages
		if !kindIsFloat(v.k) && !X.IntMode {
			w := kindWidth(v.k)
			small := w <= 8
			if !small {
				// also exact when the path condition confines the value to 0..255
				var out *smt.Term
				if kindSigned(v.k) {
					out = smt.Or(smt.BVSlt(v.t, smt.BVConst(0, w)), smt.BVSgt(v.t, smt.BVConst(255, w)))
				} else {
					out = smt.BVUgt(v.t, smt.BVConst(255, w))
				}
				small = !X.Feasible(out)
			}
			if small {
				return fmt.Sprintf("%"+verb[1:], concretize(v))
			}
		}
		X.stub("fmt of a symbolic number rendered as <sym>")
		return "<sym>"
	case bool, int, int8, int16, int32, int64, uint, uint8, uint16, uint32, uint64, uintptr, float32, float64, string:
		return fmt.Sprintf(verb, v)
	case *value:
		if last == 'p' {
			return fmt.Sprintf("%p", v)
		}
		return fmt.Sprintf("%v", toString(v))
	case []value:
		var parts []string
		for _, e := range v {
			parts = append(parts, strOf(formatArg(fr, "%v", wrapIface(e))))
		}
		return "[" + strings.Join(parts, " ") + "]"
	}
	return toString(itf.v)
}

func wrapIface(e value) value {
	if _, ok := e.(iface); ok {
		return e
	}
	return e
}

func sprintfValue(fr *frame, format string, args []value) value {
	var out value = ""
	ai := 0
	for i := 0; i < len(format); {
		c := format[i]
		if c != '%' {
			j := i
			for j < len(format) && format[j] != '%' {
				j++
			}
			out = symStringBinop(token.ADD, out, format[i:j])
			i = j
			continue
		}
		j := i + 1
		for j < len(format) && strings.IndexByte("+-# 0123456789.", format[j]) >= 0 {
			j++
		}
		if j >= len(format) {
			break
		}
		verb := format[i : j+1]
		i = j + 1
		if verb == "%%" {
			out = symStringBinop(token.ADD, out, "%")
			continue
		}
		if ai < len(args) {
			out = symStringBinop(token.ADD, out, formatArg(fr, verb, args[ai]))
			ai++
		} else {
			out = symStringBinop(token.ADD, out, "%!"+verb[len(verb)-1:]+"(MISSING)")
		}
	}
	return out
}

func sprintValue(fr *frame, args []value) value {
	var out value = ""
	prevString := true
	for i, a := range args {
		isStr := false
		if itf, ok := a.(iface); ok {
			switch itf.v.(type) {
			case string, sstring:
				isStr = true
			}
		}
		if i > 0 && !isStr && !prevString {
			out = symStringBinop(token.ADD, out, " ")
		}
		out = symStringBinop(token.ADD, out, formatArg(fr, "%v", a))
		prevString = isStr
	}
	return out
}

// ---- errors.Is / errors.As ----

func unwrapErr(fr *frame, e iface) (iface, bool) {
	if e.t == nil || !hasMethod(fr.i, e.t, "Unwrap") {
		return iface{}, false
	}
	r := callMethodByName(fr, e, "Unwrap")
	ri, ok := r.(iface)
	if !ok {
		return iface{}, false // Unwrap() []error not supported
	}
	return ri, ri.t != nil
}

func extErrorsIs(fr *frame, args []value) value {
	err, target := args[0].(iface), args[1].(iface)
	if err.t == nil || target.t == nil {
		return err.t == nil && target.t == nil
	}
	for {
		if types.Identical(err.t, target.t) && types.Comparable(err.t) {
			if equals(err.t, err.v, target.v) {
				return true
			}
		}
		if hasMethod(fr.i, err.t, "Is") {
			if decideBool(callMethodByName(fr, err, "Is", target)) {
				return true
			}
		}
		next, ok := unwrapErr(fr, err)
		if !ok {
			return false
		}
		err = next
	}
}

func extErrorsAs(fr *frame, args []value) value {
	err, target := args[0].(iface), args[1].(iface)
	if err.t == nil {
		return false
	}
	if target.t == nil {
		panic(targetPanic{iface{t: types.Typ[types.String], v: "errors: target cannot be nil"}})
	}
	pt, ok := target.t.Underlying().(*types.Pointer)
	if !ok {
		panic(targetPanic{iface{t: types.Typ[types.String], v: "errors: target must be a non-nil pointer"}})
	}
	tt := pt.Elem()
	for {
		assignable := false
		if it, ok := tt.Underlying().(*types.Interface); ok {
			assignable = types.Implements(err.t, it)
		} else {
			assignable = types.Identical(err.t, tt)
		}
		if assignable {
			p := target.v.(*value)
			if _, ok := tt.Underlying().(*types.Interface); ok {
				store(tt, p, err)
			} else {
				store(tt, p, err.v)
			}
			return true
		}
		if hasMethod(fr.i, err.t, "As") {
			if decideBool(callMethodByName(fr, err, "As", target)) {
				return true
			}
		}
		next, ok := unwrapErr(fr, err)
		if !ok {
			return false
		}
		err = next
	}
}

// ---- sort.Slice / sort.SliceStable driven by the real less closure ----

func extSortSlice(stable bool) externalFn {
	return func(fr *frame, args []value) value {
		sl := args[0].(iface).v.([]value)
		less := args[1]
		n := len(sl)
		if n < 2 {
			return nil
		}
		// insertion sort on a permutation of indices using less(i, j) on the ORIGINAL positions is not possible
		// (less indexes the live slice), so sort in place with adjacent swaps (stable by construction).
		lessIJ := func(i, j int) bool {
			return decideBool(call(fr.i, fr, token.NoPos, less, []value{i, j}))
		}
		for i := 1; i < n; i++ {
			for j := i; j > 0 && lessIJ(j, j-1); j-- {
				logStore(&sl[j])
				logStore(&sl[j-1])
				sl[j], sl[j-1] = sl[j-1], sl[j]
			}
		}
		if !stable {
			// sort.Slice gives no stability guarantee: explore both orders of each adjacent pair of ties
			for i := 0; i+1 < n; i++ {
				if !lessIJ(i, i+1) && !lessIJ(i+1, i) {
					if X.Choice("sort.Slice tie order", 2) == 1 {
						logStore(&sl[i])
						logStore(&sl[i+1])
						sl[i], sl[i+1] = sl[i+1], sl[i]
					}
				}
			}
			X.stub("sort.Slice: adjacent ties may be swapped (instability explored)")
		}
		return nil
	}
}

// ---- setupOnce ----

var setupCache = map[string]value{}

func extSetupOnce(fr *frame, args []value) value {
	key := fmt.Sprintf("%s#%d#%s", X.Harness, X.Instance, strOf(args[0]))
	if v, ok := setupCache[key]; ok {
		return v
	}
	if len(X.trace) != 0 || X.pos != 0 {
		unsupported("setupOnce after a decision")
	}
	saveMax := X.MaxSteps
	X.MaxSteps = 500_000_000
	v := call(fr.i, fr, token.NoPos, args[1], nil)
	X.MaxSteps = saveMax
	X.steps = 0
	commitHeap()
	setupCache[key] = v
	return v
}

func ClearSetupCache() { setupCache = map[string]value{} }


var emptyIfaceType = types.NewInterfaceType(nil, nil)

// syncMapOf returns the model map of a sync.Map (args[0] is the *sync.Map), creating it on first use.
func syncMapOf(p value) *hashmap {
	st := (*p.(*value)).(structure)
	if hm, ok := st[2].(*hashmap); ok && hm != nil {
		return hm
	}
	hm := makeMap(emptyIfaceType, 0).(*hashmap)
	logStore(&st[2])
	st[2] = hm
	return hm
}

// Copyright 2013 The Go Authors. All rights reserved.
// Use of this source code is governed by a BSD-style
// license that can be found in the LICENSE file.

package interp

// Emulated "reflect" package.
//
// We completely replace the built-in "reflect" package.
// The only thing clients can depend upon are that reflect.Type is an
// interface and reflect.Value is an (opaque) struct.

import (
	"fmt"
	"go/token"
	"go/types"
	"reflect"
	"unsafe"

	"golang.org/x/tools/go/ssa"
)

type opaqueType struct {
	types.Type
	name string
}

func (t *opaqueType) String() string { return t.name }

// A bogus "reflect" type-checker package.  Shared across interpreters.
var reflectTypesPackage = types.NewPackage("reflect", "reflect")

// rtype is the concrete type the interpreter uses to implement the
// reflect.Type interface.
//
// type rtype <opaque>
var rtypeType = makeNamedType("rtype", &opaqueType{nil, "rtype"})

// error is an (interpreted) named type whose underlying type is string.
// The interpreter uses it for all implementations of the built-in error
// interface that it creates.
// We put it in the "reflect" package for expedience.
//
// type error string
var errorType = makeNamedType("error", &opaqueType{nil, "error"})

func makeNamedType(name string, underlying types.Type) *types.Named {
	obj := types.NewTypeName(token.NoPos, reflectTypesPackage, name, nil)
	return types.NewNamed(obj, underlying, nil)
}

func makeReflectValue(t types.Type, v value) value {
	return structure{rtype{t}, v, (*value)(nil)}
}

// makeReflectValueAddr makes an addressable reflect.Value for the cell at addr (symgo extension).
func makeReflectValueAddr(t types.Type, addr *value) value {
	return structure{rtype{t}, nil, addr}
}

func rVAddr(v value) *value {
	st := v.(structure)
	if len(st) < 3 {
		return nil
	}
	a, _ := st[2].(*value)
	return a
}

// Given a reflect.Value, returns its rtype.
func rV2T(v value) rtype {
	return v.(structure)[0].(rtype)
}

// Given a reflect.Value, returns the underlying interpreter value.
func rV2V(v value) value {
	if a := rVAddr(v); a != nil {
		return *a
	}
	return v.(structure)[1]
}

// makeReflectType boxes up an rtype in a reflect.Type interface.
func makeReflectType(rt rtype) value {
	return iface{rtypeType, rt}
}

func ext۰reflect۰rtype۰Bits(fr *frame, args []value) value {
	// Signature: func (t reflect.rtype) int
	rt := args[0].(rtype).t
	basic, ok := rt.Underlying().(*types.Basic)
	if !ok {
		panic(fmt.Sprintf("reflect.Type.Bits(%T): non-basic type", rt))
	}
	return int(fr.i.sizes.Sizeof(basic)) * 8
}

func ext۰reflect۰rtype۰Elem(fr *frame, args []value) value {
	// Signature: func (t reflect.rtype) reflect.Type
	return makeReflectType(rtype{args[0].(rtype).t.Underlying().(interface {
		Elem() types.Type
	}).Elem()})
}

func ext۰reflect۰rtype۰Key(fr *frame, args []value) value {
	// Signature: func (t reflect.rtype) reflect.Type
	return makeReflectType(rtype{args[0].(rtype).t.Underlying().(*types.Map).Key()})
}

func ext۰reflect۰rtype۰Field(fr *frame, args []value) value {
	// Signature: func (t reflect.rtype, i int) reflect.StructField
	st := args[0].(rtype).t.Underlying().(*types.Struct)
	i := args[1].(int)
	f := st.Field(i)
	return structure{
		f.Name(),
		f.Pkg().Path(),
		makeReflectType(rtype{f.Type()}),
		st.Tag(i),
		0,         // TODO(adonovan): offset
		[]value{}, // TODO(adonovan): indices
		f.Anonymous(),
	}
}

func ext۰reflect۰rtype۰In(fr *frame, args []value) value {
	// Signature: func (t reflect.rtype, i int) int
	i := args[1].(int)
	return makeReflectType(rtype{args[0].(rtype).t.(*types.Signature).Params().At(i).Type()})
}

func ext۰reflect۰rtype۰Kind(fr *frame, args []value) value {
	// Signature: func (t reflect.rtype) uint
	return uint(reflectKind(args[0].(rtype).t))
}

func ext۰reflect۰rtype۰NumField(fr *frame, args []value) value {
	// Signature: func (t reflect.rtype) int
	return args[0].(rtype).t.Underlying().(*types.Struct).NumFields()
}

func ext۰reflect۰rtype۰NumIn(fr *frame, args []value) value {
	// Signature: func (t reflect.rtype) int
	return args[0].(rtype).t.Underlying().(*types.Signature).Params().Len()
}

func ext۰reflect۰rtype۰NumMethod(fr *frame, args []value) value {
	// Signature: func (t reflect.rtype) int
	return fr.i.prog.MethodSets.MethodSet(args[0].(rtype).t).Len()
}

func ext۰reflect۰rtype۰NumOut(fr *frame, args []value) value {
	// Signature: func (t reflect.rtype) int
	return args[0].(rtype).t.Underlying().(*types.Signature).Results().Len()
}

func ext۰reflect۰rtype۰Out(fr *frame, args []value) value {
	// Signature: func (t reflect.rtype, i int) int
	i := args[1].(int)
	return makeReflectType(rtype{args[0].(rtype).t.Underlying().(*types.Signature).Results().At(i).Type()})
}

func ext۰reflect۰rtype۰Size(fr *frame, args []value) value {
	// Signature: func (t reflect.rtype) uintptr
	return uintptr(fr.i.sizes.Sizeof(args[0].(rtype).t))
}

func ext۰reflect۰rtype۰String(fr *frame, args []value) value {
	// Signature: func (t reflect.rtype) string
	return args[0].(rtype).t.String()
}

func ext۰reflect۰New(fr *frame, args []value) value {
	// Signature: func (t reflect.Type) reflect.Value
	t := args[0].(iface).v.(rtype).t
	alloc := zero(t)
	return makeReflectValue(types.NewPointer(t), &alloc)
}

func ext۰reflect۰SliceOf(fr *frame, args []value) value {
	// Signature: func (t reflect.rtype) Type
	return makeReflectType(rtype{types.NewSlice(args[0].(iface).v.(rtype).t)})
}

func ext۰reflect۰TypeOf(fr *frame, args []value) value {
	// Signature: func (t reflect.rtype) Type
	return makeReflectType(rtype{args[0].(iface).t})
}

func ext۰reflect۰ValueOf(fr *frame, args []value) value {
	// Signature: func (interface{}) reflect.Value
	itf := args[0].(iface)
	return makeReflectValue(itf.t, itf.v)
}

func ext۰reflect۰Zero(fr *frame, args []value) value {
	// Signature: func (t reflect.Type) reflect.Value
	t := args[0].(iface).v.(rtype).t
	return makeReflectValue(t, zero(t))
}

func reflectKind(t types.Type) reflect.Kind {
	switch t := t.(type) {
	case *types.Named, *types.Alias:
		return reflectKind(t.Underlying())
	case *types.Basic:
		switch t.Kind() {
		case types.Bool:
			return reflect.Bool
		case types.Int:
			return reflect.Int
		case types.Int8:
			return reflect.Int8
		case types.Int16:
			return reflect.Int16
		case types.Int32:
			return reflect.Int32
		case types.Int64:
			return reflect.Int64
		case types.Uint:
			return reflect.Uint
		case types.Uint8:
			return reflect.Uint8
		case types.Uint16:
			return reflect.Uint16
		case types.Uint32:
			return reflect.Uint32
		case types.Uint64:
			return reflect.Uint64
		case types.Uintptr:
			return reflect.Uintptr
		case types.Float32:
			return reflect.Float32
		case types.Float64:
			return reflect.Float64
		case types.Complex64:
			return reflect.Complex64
		case types.Complex128:
			return reflect.Complex128
		case types.String:
			return reflect.String
		case types.UnsafePointer:
			return reflect.UnsafePointer
		}
	case *types.Array:
		return reflect.Array
	case *types.Chan:
		return reflect.Chan
	case *types.Signature:
		return reflect.Func
	case *types.Interface:
		return reflect.Interface
	case *types.Map:
		return reflect.Map
	case *types.Pointer:
		return reflect.Ptr
	case *types.Slice:
		return reflect.Slice
	case *types.Struct:
		return reflect.Struct
	}
	panic(fmt.Sprint("unexpected type: ", t))
}

func ext۰reflect۰Value۰Kind(fr *frame, args []value) value {
	// Signature: func (reflect.Value) uint
	return uint(reflectKind(rV2T(args[0]).t))
}

func ext۰reflect۰Value۰String(fr *frame, args []value) value {
	// Signature: func (reflect.Value) string
	switch v := rV2V(args[0]).(type) {
	case string:
		return v
	case sstring:
		return v
	}
	return toString(rV2V(args[0]))
}

func ext۰reflect۰Value۰Type(fr *frame, args []value) value {
	// Signature: func (reflect.Value) reflect.Type
	return makeReflectType(rV2T(args[0]))
}

func ext۰reflect۰Value۰Uint(fr *frame, args []value) value {
	// Signature: func (reflect.Value) uint64
	switch v := rV2V(args[0]).(type) {
	case uint:
		return uint64(v)
	case uint8:
		return uint64(v)
	case uint16:
		return uint64(v)
	case uint32:
		return uint64(v)
	case uint64:
		return uint64(v)
	case uintptr:
		return uint64(v)
	}
	panic("reflect.Value.Uint")
}

func ext۰reflect۰Value۰Len(fr *frame, args []value) value {
	// Signature: func (reflect.Value) int
	switch v := rV2V(args[0]).(type) {
	case string:
		return len(v)
	case array:
		return len(v)
	case *schan:
		return v.cap
	case []value:
		return len(v)
	case *hashmap:
		return v.len()
	case sstring:
		return len(v)
	default:
		panic(fmt.Sprintf("reflect.(Value).Len(%v)", v))
	}
}

func ext۰reflect۰Value۰MapIndex(fr *frame, args []value) value {
	// Signature: func (reflect.Value) Value
	tValue := rV2T(args[0]).t.Underlying().(*types.Map).Key()
	k := rV2V(args[1])
	switch m := rV2V(args[0]).(type) {
	case *hashmap:
		if v := m.lookup(k); v != nil {
			return makeReflectValue(tValue, v)
		}

	default:
		panic(fmt.Sprintf("(reflect.Value).MapIndex(%T, %T)", m, k))
	}
	return makeReflectValue(nil, nil)
}

func ext۰reflect۰Value۰MapKeys(fr *frame, args []value) value {
	// Signature: func (reflect.Value) []Value
	var keys []value
	tKey := rV2T(args[0]).t.Underlying().(*types.Map).Key()
	switch v := rV2V(args[0]).(type) {
	case *hashmap:
		for _, e := range v.live() {
			keys = append(keys, makeReflectValue(tKey, e.key))
		}

	default:
		panic(fmt.Sprintf("(reflect.Value).MapKeys(%T)", v))
	}
	return keys
}

func ext۰reflect۰Value۰NumField(fr *frame, args []value) value {
	// Signature: func (reflect.Value) int
	return len(rV2V(args[0]).(structure))
}

func ext۰reflect۰Value۰NumMethod(fr *frame, args []value) value {
	// Signature: func (reflect.Value) int
	return fr.i.prog.MethodSets.MethodSet(rV2T(args[0]).t).Len()
}

func ext۰reflect۰Value۰Pointer(fr *frame, args []value) value {
	// Signature: func (v reflect.Value) uintptr
	switch v := rV2V(args[0]).(type) {
	case *value:
		return uintptr(unsafe.Pointer(v))
	case *schan:
		return uintptr(unsafe.Pointer(v))
	case []value:
		return reflect.ValueOf(v).Pointer()
	case *hashmap:
		return uintptr(unsafe.Pointer(v))
	case *ssa.Function:
		return uintptr(unsafe.Pointer(v))
	case *closure:
		return uintptr(unsafe.Pointer(v))
	default:
		panic(fmt.Sprintf("reflect.(Value).Pointer(%T)", v))
	}
}

func ext۰reflect۰Value۰Index(fr *frame, args []value) value {
	// Signature: func (v reflect.Value, i int) Value
	i := int(asInt64(args[1]))
	t := rV2T(args[0]).t.Underlying()
	switch v := rV2V(args[0]).(type) {
	case array:
		return makeReflectValue(t.(*types.Array).Elem(), v[i])
	case []value:
		return makeReflectValueAddr(t.(*types.Slice).Elem(), &v[i])
	case string:
		return makeReflectValue(types.Typ[types.Uint8], v[i])
	case sstring:
		return makeReflectValue(types.Typ[types.Uint8], v[i])
	default:
		panic(fmt.Sprintf("reflect.(Value).Index(%T)", v))
	}
}

func ext۰reflect۰Value۰Bool(fr *frame, args []value) value {
	// Signature: func (reflect.Value) bool
	return rV2V(args[0]).(bool)
}

func ext۰reflect۰Value۰CanAddr(fr *frame, args []value) value {
	// Signature: func (v reflect.Value) bool
	// Always false for our representation.
	return false
}

func ext۰reflect۰Value۰CanInterface(fr *frame, args []value) value {
	// Signature: func (v reflect.Value) bool
	// Always true for our representation.
	return true
}

func ext۰reflect۰Value۰Elem(fr *frame, args []value) value {
	// Signature: func (v reflect.Value) reflect.Value
	switch x := rV2V(args[0]).(type) {
	case iface:
		return makeReflectValue(x.t, x.v)
	case *value:
		if x != nil {
			return makeReflectValueAddr(rV2T(args[0]).t.Underlying().(*types.Pointer).Elem(), x)
		}
		return makeReflectValue(rV2T(args[0]).t.Underlying().(*types.Pointer).Elem(), nil)
	default:
		panic(fmt.Sprintf("reflect.(Value).Elem(%T)", x))
	}
}

func ext۰reflect۰Value۰Field(fr *frame, args []value) value {
	// Signature: func (v reflect.Value, i int) reflect.Value
	v := args[0]
	i := args[1].(int)
	ft := rV2T(v).t.Underlying().(*types.Struct).Field(i).Type()
	if a := rVAddr(v); a != nil {
		// a field of an addressable struct is addressable: its cell is the i-th element of the struct value
		st := (*a).(structure)
		return makeReflectValueAddr(ft, &st[i])
	}
	return makeReflectValue(ft, rV2V(v).(structure)[i])
}

func ext۰reflect۰Value۰Float(fr *frame, args []value) value {
	// Signature: func (reflect.Value) float64
	switch v := rV2V(args[0]).(type) {
	case float32:
		return float64(v)
	case float64:
		return float64(v)
	case *sym:
		return symConv(types.Typ[types.Float64], v)
	}
	panic("reflect.Value.Float")
}

func ext۰reflect۰Value۰Interface(fr *frame, args []value) value {
	// Signature: func (v reflect.Value) interface{}
	return ext۰reflect۰valueInterface(fr, args)
}

func ext۰reflect۰Value۰Int(fr *frame, args []value) value {
	// Signature: func (reflect.Value) int64
	switch x := rV2V(args[0]).(type) {
	case int:
		return int64(x)
	case int8:
		return int64(x)
	case int16:
		return int64(x)
	case int32:
		return int64(x)
	case int64:
		return x
	case *sym:
		return symConv(types.Typ[types.Int64], x)
	default:
		panic(fmt.Sprintf("reflect.(Value).Int(%T)", x))
	}
}

func ext۰reflect۰Value۰IsNil(fr *frame, args []value) value {
	// Signature: func (reflect.Value) bool
	switch x := rV2V(args[0]).(type) {
	case *value:
		return x == nil
	case *schan:
		return x == nil
	case *hashmap:
		return x == nil
	case iface:
		return x.t == nil
	case []value:
		return x == nil
	case *ssa.Function:
		return x == nil
	case *ssa.Builtin:
		return x == nil
	case *closure:
		return x == nil
	default:
		panic(fmt.Sprintf("reflect.(Value).IsNil(%T)", x))
	}
}

func ext۰reflect۰Value۰IsValid(fr *frame, args []value) value {
	// Signature: func (reflect.Value) bool
	return rV2V(args[0]) != nil
}

func ext۰reflect۰Value۰Set(fr *frame, args []value) value {
	a := rVAddr(args[0])
	if a == nil {
		panic(targetPanic{iface{types.Typ[types.String], "reflect: reflect.Value.Set using unaddressable value"}})
	}
	store(rV2T(args[0]).t, a, rV2V(args[1]))
	return nil
}

func ext۰reflect۰Value۰SetLen(fr *frame, args []value) value {
	a := rVAddr(args[0])
	if a == nil {
		panic(targetPanic{iface{types.Typ[types.String], "reflect: reflect.Value.SetLen using unaddressable value"}})
	}
	n := int(asInt64(args[1]))
	sl := (*a).([]value)
	logStore(a)
	*a = sl[:n]
	return nil
}

func ext۰reflect۰Append(fr *frame, args []value) value {
	// func Append(s Value, x ...Value) Value
	t := rV2T(args[0]).t
	sl, _ := rV2V(args[0]).([]value)
	var add []value
	for _, xv := range args[1].([]value) {
		add = append(add, rV2V(xv))
	}
	return makeReflectValue(t, appendLogged(sl, add))
}

func ext۰reflect۰Value۰Addr(fr *frame, args []value) value {
	a := rVAddr(args[0])
	if a == nil {
		panic(targetPanic{iface{types.Typ[types.String], "reflect.Value.Addr of unaddressable value"}})
	}
	return makeReflectValue(types.NewPointer(rV2T(args[0]).t), a)
}

func ext۰reflect۰Value۰SetMapIndex(fr *frame, args []value) value {
	m := rV2V(args[0]).(*hashmap)
	m.insert(rV2V(args[1]), rV2V(args[2]))
	return nil
}

func ext۰reflect۰valueInterface(fr *frame, args []value) value {
	// Signature: func (v reflect.Value, safe bool) interface{}
	v := args[0].(structure)
	return iface{rV2T(v).t, rV2V(v)}
}

func ext۰reflect۰error۰Error(fr *frame, args []value) value {
	return args[0]
}

// newMethod creates a new method of the specified name, package and receiver type.
func newMethod(pkg *ssa.Package, recvType types.Type, name string) *ssa.Function {
	// TODO(adonovan): fix: hack: currently the only part of Signature
	// that is needed is the "pointerness" of Recv.Type, and for
	// now, we'll set it to always be false since we're only
	// concerned with rtype.  Encapsulate this better.
	sig := types.NewSignature(types.NewVar(token.NoPos, nil, "recv", recvType), nil, nil, false)
	fn := pkg.Prog.NewFunction(name, sig, "fake reflect method")
	fn.Pkg = pkg
	return fn
}

func initReflect(i *interpreter) {
	i.reflectPackage = &ssa.Package{
		Prog:    i.prog,
		Pkg:     reflectTypesPackage,
		Members: make(map[string]ssa.Member),
	}

	// Clobber the type-checker's notion of reflect.Value's
	// underlying type so that it more closely matches the fake one
	// (at least in the number of fields---we lie about the type of
	// the rtype field).
	//
	// We must ensure that calls to (ssa.Value).Type() return the
	// fake type so that correct "shape" is used when allocating
	// variables, making zero values, loading, and storing.
	//
	// TODO(adonovan): obviously this is a hack.  We need a cleaner
	// way to fake the reflect package (almost---DeepEqual is fine).
	// One approach would be not to even load its source code, but
	// provide fake source files.  This would guarantee that no bad
	// information leaks into other packages.
	if r := i.prog.ImportedPackage("reflect"); r != nil {
		rV := r.Pkg.Scope().Lookup("Value").Type().(*types.Named)

		// delete bodies of the old methods
		mset := i.prog.MethodSets.MethodSet(rV)
		for j := 0; j < mset.Len(); j++ {
			i.prog.MethodValue(mset.At(j)).Blocks = nil
		}

		tEface := types.NewInterface(nil, nil).Complete()
		rV.SetUnderlying(types.NewStruct([]*types.Var{
			types.NewField(token.NoPos, r.Pkg, "t", tEface, false), // a lie
			types.NewField(token.NoPos, r.Pkg, "v", tEface, false),
			types.NewField(token.NoPos, r.Pkg, "a", tEface, false),
		}, nil))
	}

	i.rtypeMethods = methodSet{
		"Bits":      newMethod(i.reflectPackage, rtypeType, "Bits"),
		"Elem":      newMethod(i.reflectPackage, rtypeType, "Elem"),
		"Field":     newMethod(i.reflectPackage, rtypeType, "Field"),
		"In":        newMethod(i.reflectPackage, rtypeType, "In"),
		"Kind":      newMethod(i.reflectPackage, rtypeType, "Kind"),
		"Key":       newMethod(i.reflectPackage, rtypeType, "Key"),
		"NumField":  newMethod(i.reflectPackage, rtypeType, "NumField"),
		"NumIn":     newMethod(i.reflectPackage, rtypeType, "NumIn"),
		"NumMethod": newMethod(i.reflectPackage, rtypeType, "NumMethod"),
		"NumOut":    newMethod(i.reflectPackage, rtypeType, "NumOut"),
		"Out":       newMethod(i.reflectPackage, rtypeType, "Out"),
		"Size":      newMethod(i.reflectPackage, rtypeType, "Size"),
		"String":    newMethod(i.reflectPackage, rtypeType, "String"),
	}
	i.errorMethods = methodSet{
		"Error": newMethod(i.reflectPackage, errorType, "Error"),
	}
}

package interp

// Write-frame and lockset instrumentation for C14: which heap cells an operation writes, and whether two
// goroutines access a shared cell without a common lock.

import (
	"fmt"
	"strings"

	"golang.org/x/tools/go/ssa"
)

// reach collects the addresses of every cell reachable from v.
func reachCells(v value, seen map[*value]bool, maps map[*hashmap]bool) {
	switch x := v.(type) {
	case *value:
		if x == nil || seen[x] {
			return
		}
		seen[x] = true
		reachCells(*x, seen, maps)
	case []value:
		for i := range x {
			p := &x[i]
			if seen[p] {
				continue
			}
			seen[p] = true
			reachCells(x[i], seen, maps)
		}
	case structure:
		for i := range x {
			p := &x[i]
			if seen[p] {
				continue
			}
			seen[p] = true
			reachCells(x[i], seen, maps)
		}
	case array:
		for i := range x {
			p := &x[i]
			if seen[p] {
				continue
			}
			seen[p] = true
			reachCells(x[i], seen, maps)
		}
	case iface:
		reachCells(x.v, seen, maps)
	case *closure:
		if x != nil {
			for _, e := range x.Env {
				reachCells(e, seen, maps)
			}
		}
	case *hashmap:
		if x == nil || maps[x] {
			return
		}
		maps[x] = true
		for _, e := range x.order {
			if !e.deleted {
				reachCells(e.key, seen, maps)
				reachCells(e.value, seen, maps)
			}
		}
	case tuple:
		for _, e := range x {
			reachCells(e, seen, maps)
		}
	}
}

type frameState struct {
	forbidden     map[*value]bool
	forbiddenMaps map[*hashmap]bool
	startStores   int
	startMaps     int
	why           map[*value]string
}

var curFrame *frameState
var mapWriteLog []*hashmap

func logMapWrite(m *hashmap) {
	if undoActive {
		mapWriteLog = append(mapWriteLog, m)
	}
}

// frameBegin: cells reachable from `other` and from package-level variables of the packages under test (except
// those reachable from the allowed globals) must not be written until frameEnd.
func frameBegin(i *interpreter, other value, allowedGlobals []string) {
	allowed := map[*value]bool{}
	allowedMaps := map[*hashmap]bool{}
	isAllowed := func(g *ssa.Global) bool {
		for _, a := range allowedGlobals {
			if g.Pkg != nil && g.Pkg.Pkg.Path()+"."+g.Name() == a {
				return true
			}
		}
		return false
	}
	for g, cell := range i.globals {
		if isAllowed(g) {
			reachCells(cell, allowed, allowedMaps)
		}
	}
	f := &frameState{forbidden: map[*value]bool{}, forbiddenMaps: map[*hashmap]bool{}, why: map[*value]string{}}
	reachCells(other, f.forbidden, f.forbiddenMaps)
	for p := range f.forbidden {
		f.why[p] = "reachable from the other interpreter"
	}
	for g, cell := range i.globals {
		if g.Pkg == nil || !strings.HasPrefix(g.Pkg.Pkg.Path(), "github.com/ichiban/prolog") || isAllowed(g) {
			continue
		}
		if strings.HasPrefix(g.Name(), "v") || strings.Contains(g.Name(), "init$guard") {
			// harness state (v*) and init guards are not part of the system under test
			if strings.HasPrefix(g.Name(), "vOut") || strings.HasPrefix(g.Name(), "vH") || strings.HasPrefix(g.Name(), "vCur") || strings.HasPrefix(g.Name(), "vPos") ||
				strings.HasPrefix(g.Name(), "vFail") || strings.HasPrefix(g.Name(), "vReach") || strings.HasPrefix(g.Name(), "vNotes") || strings.HasPrefix(g.Name(), "vUnordered") || strings.Contains(g.Name(), "init$guard") {
				continue
			}
		}
		before := len(f.forbidden)
		sub := map[*value]bool{}
		reachCells(cell, sub, f.forbiddenMaps)
		for p := range sub {
			if !f.forbidden[p] {
				f.forbidden[p] = true
				f.why[p] = "package-level variable " + g.Pkg.Pkg.Name() + "." + g.Name()
			}
		}
		_ = before
	}
	for p := range allowed {
		delete(f.forbidden, p)
	}
	for m := range allowedMaps {
		delete(f.forbiddenMaps, m)
	}
	f.startStores = len(storeLog)
	f.startMaps = len(mapWriteLog)
	curFrame = f
}

// frameEnd returns a description of the first forbidden write since frameBegin ("" if none).
func frameEnd() string {
	f := curFrame
	curFrame = nil
	if f == nil {
		return "frameEnd without frameBegin"
	}
	for _, s := range storeLog[f.startStores:] {
		if f.forbidden[s.addr] {
			return fmt.Sprintf("write to a cell that is %s (old value %s)", f.why[s.addr], toString(s.old))
		}
	}
	for _, m := range mapWriteLog[f.startMaps:] {
		if f.forbiddenMaps[m] {
			return "update of a map that is reachable from the other interpreter or from a package-level variable"
		}
	}
	return ""
}

// ---- lockset race detection on child goroutines ----

type access struct {
	addr   *value
	write  bool
	g      int
	locks  []heldLock
	atomic bool
	isMap  bool
	where  string
}

type heldLock struct {
	ls    *lockState
	write bool
}

var raceOn bool
var accesses []access

func recordAccess(addr *value, write bool, atomic bool) {
	if !raceOn || sch == nil || sch.cur == sch.main || raceScope == nil || !raceScope[addr] {
		return
	}
	g := sch.cur
	accesses = append(accesses, access{addr: addr, write: write, g: g.id, locks: append([]heldLock{}, g.held...), atomic: atomic})
}

var raceScope map[*value]bool
var raceMaps map[*hashmap]bool

// recordMapAccess: a map is one location (Go maps are not safe for concurrent use when one side writes).
func recordMapAccess(m *hashmap, write bool) {
	if !raceOn || sch == nil || sch.cur == sch.main || raceMaps == nil || !raceMaps[m] {
		return
	}
	g := sch.cur
	accesses = append(accesses, access{addr: &m.cell, write: write, g: g.id, locks: append([]heldLock{}, g.held...), isMap: true})
}

// raceBegin: accesses of child goroutines to cells reachable from package-level variables of the packages under
// test are recorded with the locks held.
func raceBegin(i *interpreter) {
	raceScope = map[*value]bool{}
	maps := map[*hashmap]bool{}
	raceMaps = maps
	for g, cell := range i.globals {
		if g.Pkg == nil || !strings.HasPrefix(g.Pkg.Pkg.Path(), "github.com/ichiban/prolog") {
			continue
		}
		if strings.Contains(g.Name(), "init$guard") {
			continue
		}
		reachCells(cell, raceScope, maps)
	}
	accesses = accesses[:0]
	raceOn = true
}

func commonLock(a, b access) bool {
	for _, x := range a.locks {
		for _, y := range b.locks {
			if x.ls == y.ls && (x.write || y.write) {
				return true
			}
		}
	}
	return false
}

// raceEnd returns a description of the first pair of conflicting accesses without a common lock ("" if none).
func raceEnd() string {
	raceOn = false
	byAddr := map[*value][]int{}
	for i, a := range accesses {
		byAddr[a.addr] = append(byAddr[a.addr], i)
	}
	for _, idxs := range byAddr {
		for x := 0; x < len(idxs); x++ {
			for y := x + 1; y < len(idxs); y++ {
				a, b := accesses[idxs[x]], accesses[idxs[y]]
				if a.g == b.g || (!a.write && !b.write) || (a.atomic && b.atomic) {
					continue
				}
				if !commonLock(a, b) && a.isMap {
					return fmt.Sprintf("goroutines g%d and g%d use the same map reachable from a package-level variable (one writes it) with no common lock", a.g, b.g)
				}
				if !commonLock(a, b) {
					return fmt.Sprintf("goroutines g%d and g%d access the same package-level cell (one writes) with no common lock; current value %s", a.g, b.g, toString(*a.addr))
				}
			}
		}
	}
	return ""
}

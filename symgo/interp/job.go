package interp

// Job execution: explore all paths of one harness instance (DFS over decision prefixes).

import (
	"fmt"
	"os"
	"sort"
	"time"

	"golang.org/x/tools/go/ssa"
	"verif/symgo/smt"
)

// Job describes one unit of exploration.
type Job struct {
	ID        int          `json:"id"`
	Property  string       `json:"property"`
	Harness   string       `json:"harness"`
	Pkg       string       `json:"pkg"`
	Instance  int          `json:"instance"`
	Mode      string       `json:"mode"`   // "bv" | "int"
	Solver    string       `json:"solver"` // "z3" | "cvc5" | "z3-new"
	TimeoutMS int          `json:"timeout_ms"`
	MaxSteps  int64        `json:"max_steps"`
	MaxDepth  int          `json:"max_depth"`
	MaxPaths  int          `json:"max_paths"`
	SliceS    float64      `json:"slice_s"` // return leftover work after this many seconds
	Prefixes  [][]Decision `json:"prefixes,omitempty"`
	KFOpen    []string     `json:"kf_open,omitempty"`
	Concrete  map[string]string `json:"concrete,omitempty"`
	Summaries map[string]string `json:"summaries,omitempty"` // callee name -> harness-provided summary function (same package)
	BudgetAsViolation bool `json:"budget_as_violation,omitempty"`
	MaxPreempt        int  `json:"max_preempt,omitempty"`
}

// JobResult is what a worker reports back.
type JobResult struct {
	ID         int               `json:"id"`
	Harness    string            `json:"harness"`
	Instance   int               `json:"instance"`
	Paths      int               `json:"paths"`
	Ends       map[string]int    `json:"ends"`
	Steps      int64             `json:"steps"`
	Decisions  int               `json:"decisions"`
	Queries    smt.Stats         `json:"queries"`
	Violations []Violation       `json:"violations,omitempty"`
	KFSeen     map[string]string `json:"kf_seen,omitempty"`
	Reached    []string          `json:"reached,omitempty"`
	ReachWant  []string          `json:"reach_want,omitempty"`
	Unsupp     map[string]int    `json:"unsupported,omitempty"`
	Inconcl    []string          `json:"inconclusive,omitempty"`
	Stubs      map[string]int    `json:"stubs,omitempty"`
	Funcs      []string          `json:"funcs,omitempty"`
	Leftover   [][]Decision      `json:"leftover,omitempty"`
	Samples    []string          `json:"samples,omitempty"`
	WallS      float64           `json:"wall_s"`
	Error      string            `json:"error,omitempty"`
}

var solverCache = map[string]*smt.Solver{}

func getSolver(name string, timeoutMS int) (*smt.Solver, error) {
	key := fmt.Sprintf("%s/%d", name, timeoutMS)
	if s, ok := solverCache[key]; ok {
		return s, nil
	}
	s, err := smt.NewSolver(name, timeoutMS)
	if err != nil {
		return nil, err
	}
	if lp := os.Getenv("SYMGO_SMTLOG"); lp != "" {
		f, err := os.OpenFile(fmt.Sprintf("%s.%d", lp, os.Getpid()), os.O_CREATE|os.O_WRONLY|os.O_APPEND, 0o644)
		if err == nil {
			s.Log = f
		}
	}
	solverCache[key] = s
	return s, nil
}

func CloseSolvers() {
	for _, s := range solverCache {
		s.Close()
	}
}

// RunJob explores the job's paths.
func (p *Program) RunJob(j Job) (res JobResult) {
	t0 := time.Now()
	res = JobResult{ID: j.ID, Harness: j.Harness, Instance: j.Instance, Ends: map[string]int{}}
	fn := p.FindFunc(j.Pkg, j.Harness)
	if fn == nil {
		res.Error = "harness not found: " + j.Pkg + "." + j.Harness
		return
	}
	if j.Solver == "" {
		j.Solver = "z3"
	}
	if j.TimeoutMS == 0 {
		j.TimeoutMS = 60000
	}
	s, err := getSolver(j.Solver, j.TimeoutMS)
	if err != nil {
		res.Error = err.Error()
		return
	}
	before := s.Stats
	x := NewExec(s)
	x.IntMode = j.Mode == "int"
	x.Harness, x.Instance = j.Harness, j.Instance
	if j.MaxSteps > 0 {
		x.MaxSteps = j.MaxSteps
	}
	if j.MaxDepth > 0 {
		x.MaxDepth = j.MaxDepth
	}
	for _, k := range j.KFOpen {
		x.KFOpen[k] = true
	}
	x.concrete = j.Concrete
	x.BudgetAsViolation = j.BudgetAsViolation
	x.MaxPreempt = j.MaxPreempt
	if len(j.Summaries) > 0 {
		x.Summaries = map[*ssa.Function]*ssa.Function{}
		for from, to := range j.Summaries {
			f, t := p.FindFunc(j.Pkg, from), p.FindFunc(j.Pkg, to)
			if f == nil || t == nil {
				res.Error = "summary function not found: " + from + " -> " + to
				return
			}
			x.Summaries[f] = t
		}
	}
	work := j.Prefixes
	if len(work) == 0 {
		work = [][]Decision{nil}
	}
	maxPaths := j.MaxPaths
	if maxPaths == 0 {
		maxPaths = 1 << 30
	}
	for len(work) > 0 {
		if res.Paths >= maxPaths {
			res.Inconcl = append(res.Inconcl, fmt.Sprintf("path budget %d exhausted with %d prefixes left", maxPaths, len(work)))
			break
		}
		if j.SliceS > 0 && time.Since(t0).Seconds() > j.SliceS && res.Paths > 0 {
			res.Leftover = work
			break
		}
		prefix := work[len(work)-1]
		work = work[:len(work)-1]
		pr := p.RunPath(x, fn, []int{j.Instance}, prefix)
		res.Paths++
		res.Ends[pr.End.String()]++
		res.Steps += pr.Steps
		res.Decisions += len(pr.Trace)
		if pr.End.IsInconclusive() && !(j.BudgetAsViolation && pr.End == endBudget) {
			// (a path over the budget of a budget_as_violation harness is a candidate that the orchestrator decides by a
			// native replay: violation, bound of the executor (then inconclusive), or - death_only - a program that runs on)
			msg := pr.End.String() + ": " + firstLine(pr.Msg)
			if len(res.Inconcl) < 20 {
				res.Inconcl = append(res.Inconcl, msg)
			}
		}
		if len(res.Samples) < 3 && pr.End == endDone {
			res.Samples = append(res.Samples, x.describePath())
		}
		work = append(work, pr.Pending...)
		if len(x.Viols) >= 5 {
			// enough counterexamples for this job; stop exploring (the check fails anyway)
			if len(work) > 0 {
				res.Inconcl = append(res.Inconcl, "stopped after 5 violations")
			}
			break
		}
	}
	res.Violations = x.Viols
	res.KFSeen = x.KFSeen
	res.Reached = x.sortedKeys(x.Reached)
	res.ReachWant = x.sortedKeys(x.ReachWant)
	res.Unsupp = x.Unsupp
	res.Stubs = x.StubsHit
	res.Funcs = x.FuncNamesHit("github.com/ichiban/prolog")
	sort.Strings(res.Funcs)
	after := s.Stats
	res.Queries = smt.Stats{Queries: after.Queries - before.Queries, Sat: after.Sat - before.Sat, Unsat: after.Unsat - before.Unsat,
		Unknown: after.Unknown - before.Unknown, Errors: after.Errors - before.Errors, SolverNS: after.SolverNS - before.SolverNS}
	res.WallS = time.Since(t0).Seconds()
	return
}

// describePath renders the draws of the last path with one model (for evidence samples).
func (x *Exec) describePath() string {
	draws, err := x.modelDraws()
	if err != nil {
		return ""
	}
	s := fmt.Sprintf("%s#%d:", x.Harness, x.Instance)
	for _, d := range draws {
		s += " " + d.Name + "=" + d.Val
	}
	return s
}

package interp

// Symbolic scalars: an interpreter value whose dynamic type is *sym stands for an SMT term.

import (
	"fmt"
	"go/token"
	"go/types"
	"math"
	"math/big"

	"verif/symgo/smt"
)

type sym struct {
	k types.BasicKind // Bool, Int..Uint64, Uintptr, Float32, Float64; kWide for spec integers
	t *smt.Term
}

const kWide = types.UntypedInt // mathematical (or 128-bit) integer used by specifications

func isSym(v value) bool {
	_, ok := v.(*sym)
	return ok
}

func basicKind(t types.Type) (types.BasicKind, bool) {
	b, ok := t.Underlying().(*types.Basic)
	if !ok {
		return 0, false
	}
	k := b.Kind()
	switch k {
	case types.UntypedBool:
		k = types.Bool
	case types.UntypedInt:
		k = types.Int
	case types.UntypedRune:
		k = types.Int32
	case types.UntypedFloat:
		k = types.Float64
	}
	return k, true
}

func kindWidth(k types.BasicKind) int {
	switch k {
	case types.Int8, types.Uint8:
		return 8
	case types.Int16, types.Uint16:
		return 16
	case types.Int32, types.Uint32, types.Float32:
		return 32
	case types.Int, types.Uint, types.Int64, types.Uint64, types.Uintptr, types.Float64:
		return 64
	case kWide:
		return 128
	}
	return 0
}

func kindSigned(k types.BasicKind) bool {
	switch k {
	case types.Int, types.Int8, types.Int16, types.Int32, types.Int64, kWide:
		return true
	}
	return false
}

func kindIsInt(k types.BasicKind) bool {
	switch k {
	case types.Int, types.Int8, types.Int16, types.Int32, types.Int64,
		types.Uint, types.Uint8, types.Uint16, types.Uint32, types.Uint64, types.Uintptr:
		return true
	}
	return false
}

func kindIsFloat(k types.BasicKind) bool { return k == types.Float32 || k == types.Float64 }

func kindName(k types.BasicKind) string {
	if k == kWide {
		return "wint"
	}
	return types.Typ[k].Name()
}

// dynKind returns the basic kind of a concrete interpreter scalar.
func dynKind(v value) (types.BasicKind, bool) {
	switch v := v.(type) {
	case *sym:
		return v.k, true
	case bool:
		return types.Bool, true
	case int:
		return types.Int, true
	case int8:
		return types.Int8, true
	case int16:
		return types.Int16, true
	case int32:
		return types.Int32, true
	case int64:
		return types.Int64, true
	case uint:
		return types.Uint, true
	case uint8:
		return types.Uint8, true
	case uint16:
		return types.Uint16, true
	case uint32:
		return types.Uint32, true
	case uint64:
		return types.Uint64, true
	case uintptr:
		return types.Uintptr, true
	case float32:
		return types.Float32, true
	case float64:
		return types.Float64, true
	}
	return 0, false
}

// bitsOf returns the bit pattern of a concrete scalar.
func bitsOf(v value) uint64 {
	switch v := v.(type) {
	case bool:
		if v {
			return 1
		}
		return 0
	case int:
		return uint64(v)
	case int8:
		return uint64(uint8(v))
	case int16:
		return uint64(uint16(v))
	case int32:
		return uint64(uint32(v))
	case int64:
		return uint64(v)
	case uint:
		return uint64(v)
	case uint8:
		return uint64(v)
	case uint16:
		return uint64(v)
	case uint32:
		return uint64(v)
	case uint64:
		return v
	case uintptr:
		return uint64(v)
	case float32:
		return uint64(math.Float32bits(v))
	case float64:
		return math.Float64bits(v)
	}
	panic(fmt.Sprintf("bitsOf: %T", v))
}

// concOf builds a concrete interpreter scalar of kind k from a bit pattern.
func concOf(k types.BasicKind, bits uint64) value {
	switch k {
	case types.Bool:
		return bits != 0
	case types.Int:
		return int(bits)
	case types.Int8:
		return int8(bits)
	case types.Int16:
		return int16(bits)
	case types.Int32:
		return int32(bits)
	case types.Int64:
		return int64(bits)
	case types.Uint:
		return uint(bits)
	case types.Uint8:
		return uint8(bits)
	case types.Uint16:
		return uint16(bits)
	case types.Uint32:
		return uint32(bits)
	case types.Uint64:
		return bits
	case types.Uintptr:
		return uintptr(bits)
	case types.Float32:
		return math.Float32frombits(uint32(bits))
	case types.Float64:
		return math.Float64frombits(bits)
	}
	panic(fmt.Sprintf("concOf: kind %v", k))
}

func signedBig(k types.BasicKind, bits uint64) *big.Int {
	if kindSigned(k) {
		w := kindWidth(k)
		var s int64
		switch w {
		case 8:
			s = int64(int8(bits))
		case 16:
			s = int64(int16(bits))
		case 32:
			s = int64(int32(bits))
		default:
			s = int64(bits)
		}
		return big.NewInt(s)
	}
	return new(big.Int).SetUint64(bits)
}

// termOf lifts a scalar value to an SMT term of kind k.
func termOf(v value, k types.BasicKind) *smt.Term {
	if s, ok := v.(*sym); ok {
		return s.t
	}
	switch {
	case k == types.Bool:
		return smt.BoolConst(v.(bool))
	case kindIsFloat(k):
		if k == types.Float32 {
			return smt.FPConst32(math.Float32bits(v.(float32)))
		}
		return smt.FPConst64(math.Float64bits(v.(float64)))
	case kindIsInt(k):
		b := bitsOf(v)
		if X.IntMode {
			dk, _ := dynKind(v)
			return smt.IntConst(signedBig(dk, b))
		}
		return smt.BVConst(b, kindWidth(k))
	}
	panic(fmt.Sprintf("termOf: kind %v value %T", k, v))
}

func mkSym(k types.BasicKind, t *smt.Term) value {
	// fold constants back to concrete values where cheap
	if t.IsConst && t.Op == "" {
		if k == types.Bool {
			return t.CVal != 0
		}
		if kindIsInt(k) && !X.IntMode {
			return concOf(k, t.CVal)
		}
	}
	return &sym{k: k, t: t}
}

func symBool(t *smt.Term) value { return mkSym(types.Bool, t) }

// truth converts a bool-ish value (bool or *sym) to a term.
func truth(v value) *smt.Term {
	switch v := v.(type) {
	case bool:
		return smt.BoolConst(v)
	case *sym:
		return v.t
	}
	panic(fmt.Sprintf("truth: %T", v))
}

// decideBool turns a bool-ish value into a concrete bool on this path (forking if needed).
func decideBool(v value) bool {
	switch v := v.(type) {
	case bool:
		return v
	case *sym:
		return X.Decide(v.t)
	}
	panic(fmt.Sprintf("decideBool: %T", v))
}

// concretize returns a concrete value for v on this path (enumerating alternatives).
func concretize(v value) value {
	s, ok := v.(*sym)
	if !ok {
		return v
	}
	if s.k == types.Bool {
		return X.Decide(s.t)
	}
	if kindIsFloat(s.k) {
		unsupported("concretize float")
	}
	if X.IntMode {
		unsupported("concretize in int mode")
	}
	bits := X.Concretize(s.t)
	return concOf(s.k, bits)
}

func symBinop(op token.Token, t types.Type, x, y value) value {
	k, ok := basicKind(t)
	if !ok {
		// non-basic static type (e.g. type parameter); use dynamic kinds
		k, _ = dynKind(x)
	}
	if k == types.String {
		return symStringBinop(op, x, y)
	}
	switch op {
	case token.SHL, token.SHR:
		return symShift(op, k, x, y)
	}
	a, b := termOf(x, k), termOf(y, k)
	switch {
	case k == types.Bool:
		switch op {
		case token.EQL:
			return symBool(smt.Eq(a, b))
		case token.NEQ:
			return symBool(smt.Not(smt.Eq(a, b)))
		}
	case kindIsFloat(k):
		switch op {
		case token.ADD:
			return mkSym(k, smt.FPAdd(a, b))
		case token.SUB:
			return mkSym(k, smt.FPSub(a, b))
		case token.MUL:
			return mkSym(k, smt.FPMul(a, b))
		case token.QUO:
			return mkSym(k, smt.FPDiv(a, b))
		case token.EQL:
			return symBool(smt.FPEq(a, b))
		case token.NEQ:
			return symBool(smt.Not(smt.FPEq(a, b)))
		case token.LSS:
			return symBool(smt.FPLt(a, b))
		case token.LEQ:
			return symBool(smt.FPLeq(a, b))
		case token.GTR:
			return symBool(smt.FPGt(a, b))
		case token.GEQ:
			return symBool(smt.FPGeq(a, b))
		}
	case kindIsInt(k) && X.IntMode:
		w, sg := kindWidth(k), kindSigned(k)
		switch op {
		case token.ADD:
			return mkSym(k, smt.IWrap(smt.IAdd(a, b), w, sg))
		case token.SUB:
			return mkSym(k, smt.IWrap(smt.ISub(a, b), w, sg))
		case token.MUL:
			return mkSym(k, smt.IWrap(smt.IMul(a, b), w, sg))
		case token.QUO, token.REM:
			if X.Guard(smt.Eq(b, smt.IntConst64(0))) {
				panic(runtimeErr("integer divide by zero"))
			}
			q := smt.ITruncDiv(a, b)
			if op == token.QUO {
				return mkSym(k, smt.IWrap(q, w, sg))
			}
			return mkSym(k, smt.ISub(a, smt.IMul(q, b)))
		case token.EQL:
			return symBool(smt.Eq(a, b))
		case token.NEQ:
			return symBool(smt.Not(smt.Eq(a, b)))
		case token.LSS:
			return symBool(smt.ILt(a, b))
		case token.LEQ:
			return symBool(smt.ILe(a, b))
		case token.GTR:
			return symBool(smt.IGt(a, b))
		case token.GEQ:
			return symBool(smt.IGe(a, b))
		}
		unsupported("int-mode operator %s", op)
	case kindIsInt(k):
		sg := kindSigned(k)
		switch op {
		case token.ADD:
			return mkSym(k, smt.BVAdd(a, b))
		case token.SUB:
			return mkSym(k, smt.BVSub(a, b))
		case token.MUL:
			return mkSym(k, smt.BVMul(a, b))
		case token.QUO, token.REM:
			if X.Guard(smt.Eq(b, smt.BVConst(0, kindWidth(k)))) {
				panic(runtimeErr("integer divide by zero"))
			}
			switch {
			case op == token.QUO && sg:
				return mkSym(k, smt.BVSDiv(a, b))
			case op == token.QUO:
				return mkSym(k, smt.BVUDiv(a, b))
			case sg:
				return mkSym(k, smt.BVSRem(a, b))
			default:
				return mkSym(k, smt.BVURem(a, b))
			}
		case token.AND:
			return mkSym(k, smt.BVAnd(a, b))
		case token.OR:
			return mkSym(k, smt.BVOr(a, b))
		case token.XOR:
			return mkSym(k, smt.BVXor(a, b))
		case token.AND_NOT:
			return mkSym(k, smt.BVAnd(a, smt.BVNot(b)))
		case token.EQL:
			return symBool(smt.Eq(a, b))
		case token.NEQ:
			return symBool(smt.Not(smt.Eq(a, b)))
		case token.LSS:
			if sg {
				return symBool(smt.BVSlt(a, b))
			}
			return symBool(smt.BVUlt(a, b))
		case token.LEQ:
			if sg {
				return symBool(smt.BVSle(a, b))
			}
			return symBool(smt.BVUle(a, b))
		case token.GTR:
			if sg {
				return symBool(smt.BVSgt(a, b))
			}
			return symBool(smt.BVUgt(a, b))
		case token.GEQ:
			if sg {
				return symBool(smt.BVSge(a, b))
			}
			return symBool(smt.BVUge(a, b))
		}
	}
	unsupported("symbolic binop %s on kind %v", op, k)
	return nil
}

type runtimeErrT struct{ msg string }

func (e runtimeErrT) Error() string { return "runtime error: " + e.msg }
func (e runtimeErrT) RuntimeError() {}

func runtimeErr(msg string) error { return runtimeErrT{msg} }

func symShift(op token.Token, k types.BasicKind, x, y value) value {
	if X.IntMode {
		return symShiftInt(op, k, x, y)
	}
	yk, _ := dynKind(y)
	w := kindWidth(k)
	a := termOf(x, k)
	s := termOf(y, yk)
	yw := kindWidth(yk)
	if kindSigned(yk) {
		if X.Guard(smt.BVSlt(s, smt.BVConst(0, yw))) {
			panic(runtimeErr("negative shift amount"))
		}
	}
	// saturate count to w, then resize to x's width
	var cnt *smt.Term
	if yw > w {
		big := smt.BVUge(s, smt.BVConst(uint64(w), yw))
		cnt = smt.Ite(big, smt.BVConst(uint64(w), w), smt.Extract(w-1, 0, s))
	} else {
		cnt = smt.ZeroExt(w-yw, s)
	}
	switch {
	case op == token.SHL:
		return mkSym(k, smt.BVShl(a, cnt))
	case kindSigned(k):
		return mkSym(k, smt.BVAshr(a, cnt))
	default:
		return mkSym(k, smt.BVLshr(a, cnt))
	}
}

func symUnop(op token.Token, x *sym) value {
	k := x.k
	switch op {
	case token.SUB:
		switch {
		case kindIsFloat(k):
			return mkSym(k, smt.FPNeg(x.t))
		case X.IntMode:
			return mkSym(k, smt.IWrap(smt.INeg(x.t), kindWidth(k), kindSigned(k)))
		default:
			return mkSym(k, smt.BVNeg(x.t))
		}
	case token.NOT:
		return symBool(smt.Not(x.t))
	case token.XOR:
		if X.IntMode {
			// ^x = -x-1
			return mkSym(k, smt.IWrap(smt.ISub(smt.INeg(x.t), smt.IntConst64(1)), kindWidth(k), kindSigned(k)))
		}
		return mkSym(k, smt.BVNot(x.t))
	}
	unsupported("symbolic unop %s", op)
	return nil
}

// symConv converts symbolic scalar x (kind from x) to the basic destination type.
func symConv(tdst types.Type, x *sym) value {
	dk, ok := basicKind(tdst)
	if !ok {
		unsupported("conversion of symbolic value to %s", tdst)
	}
	sk := x.k
	if dk == types.String {
		return symRuneToString(x)
	}
	if dk == types.UnsafePointer {
		unsupported("symbolic to unsafe.Pointer")
	}
	switch {
	case kindIsInt(sk) && kindIsInt(dk):
		if X.IntMode {
			if kindWidth(dk) >= kindWidth(sk) && kindSigned(dk) == kindSigned(sk) || (kindWidth(dk) > kindWidth(sk) && kindSigned(dk)) {
				return &sym{dk, x.t}
			}
			return mkSym(dk, smt.IWrap(x.t, kindWidth(dk), kindSigned(dk)))
		}
		return mkSym(dk, smt.Resize(x.t, kindWidth(dk), kindSigned(sk)))
	case kindIsInt(sk) && kindIsFloat(dk):
		if X.IntMode {
			unsupported("int->float in int mode")
		}
		if kindSigned(sk) {
			return mkSym(dk, smt.FPFromSBV(x.t, kindWidth(dk)))
		}
		return mkSym(dk, smt.FPFromUBV(x.t, kindWidth(dk)))
	case kindIsFloat(sk) && kindIsFloat(dk):
		return mkSym(dk, smt.FPToFP(x.t, kindWidth(dk)))
	case kindIsFloat(sk) && kindIsInt(dk):
		if X.IntMode {
			unsupported("float->int in int mode")
		}
		// Go: the result is implementation-specific when the value does not fit. In range: truncation.
		w := kindWidth(dk)
		tr := smt.FPRound("RTZ", x.t)
		var lo, hi *smt.Term // inclusive lower bound, exclusive upper bound as FP constants (exactly representable)
		fw := kindWidth(sk)
		mk := func(f float64) *smt.Term {
			if fw == 32 {
				return smt.FPConst32(math.Float32bits(float32(f)))
			}
			return smt.FPConst64(math.Float64bits(f))
		}
		var conv *smt.Term
		if kindSigned(dk) {
			lo, hi = mk(-math.Ldexp(1, w-1)), mk(math.Ldexp(1, w-1))
			conv = smt.FPToSBV(x.t, w)
		} else {
			lo, hi = mk(0), mk(math.Ldexp(1, w))
			conv = smt.FPToUBV(x.t, w)
		}
		inrange := smt.And(smt.FPGeq(tr, lo), smt.FPLt(tr, hi))
		X.stub("float->int out of range = unconstrained value")
		fresh := X.freshVar("f2i", smt.BV(w))
		return mkSym(dk, smt.Ite(inrange, conv, fresh))
	}
	unsupported("symbolic conversion %v -> %v", sk, dk)
	return nil
}

// ---- symbolic equality on arbitrary values ----

// symEquals returns a bool or a *sym(Bool) for x == y where either side may contain symbolic scalars.
func symEqualsScalar(x, y value) value {
	k, _ := dynKind(x)
	if s, ok := x.(*sym); ok {
		k = s.k
	} else if s, ok := y.(*sym); ok {
		k = s.k
	}
	a, b := termOf(x, k), termOf(y, k)
	if kindIsFloat(k) {
		return symBool(smt.FPEq(a, b))
	}
	return symBool(smt.Eq(a, b))
}

// equalsV is equals() returning a bool or a symbolic Bool (no forking).
func equalsV(t types.Type, x, y value) value {
	if !containsSym(x) && !containsSym(y) {
		return equals(t, x, y)
	}
	switch x := x.(type) {
	case structure:
		y := y.(structure)
		st := t.Underlying().(*types.Struct)
		acc := smt.True()
		for i := range x {
			if f := st.Field(i); !f.Anonymous() && f.Name() == "_" {
				continue
			}
			acc = smt.And(acc, truth(equalsV(st.Field(i).Type(), x[i], y[i])))
			if acc.IsConst && acc.CVal == 0 {
				return false
			}
		}
		return symBool(acc)
	case array:
		y := y.(array)
		et := t.Underlying().(*types.Array).Elem()
		acc := smt.True()
		for i := range x {
			acc = smt.And(acc, truth(equalsV(et, x[i], y[i])))
			if acc.IsConst && acc.CVal == 0 {
				return false
			}
		}
		return symBool(acc)
	case iface:
		y := y.(iface)
		if x.t == nil || y.t == nil {
			return x.t == nil && y.t == nil
		}
		if !types.Identical(x.t, y.t) {
			return false
		}
		return equalsV(x.t, x.v, y.v)
	case sstring:
		return symStringBinop(token.EQL, x, y)
	case string:
		return symStringBinop(token.EQL, x, y)
	}
	return symEqualsScalar(x, y)
}


// symShiftInt: shifts on mathematical integers (Int mode): x << c = wrap(x * 2^c), x >> c = floor(x / 2^c).
func symShiftInt(op token.Token, k types.BasicKind, x, y value) value {
	w, sg := kindWidth(k), kindSigned(k)
	a := termOf(x, k)
	one := func(c int) *smt.Term {
		if c >= w {
			if op == token.SHL || !sg {
				return smt.IntConst64(0)
			}
			return smt.Ite(smt.ILt(a, smt.IntConst64(0)), smt.IntConst64(-1), smt.IntConst64(0))
		}
		p := smt.IntConst(new(big.Int).Lsh(big.NewInt(1), uint(c)))
		if op == token.SHL {
			return smt.IWrap(smt.IMul(a, p), w, sg)
		}
		return smt.IDivE(a, p) // euclidean division by a positive constant is the floor
	}
	if !isSym(y) {
		c := asInt64(y)
		if c < 0 {
			panic(runtimeErr("negative shift amount"))
		}
		if c > int64(w) {
			c = int64(w)
		}
		return mkSym(k, one(int(c)))
	}
	yk, _ := dynKind(y)
	s := termOf(y, yk)
	if kindSigned(yk) {
		if X.Guard(smt.ILt(s, smt.IntConst64(0))) {
			panic(runtimeErr("negative shift amount"))
		}
	}
	r := one(w)
	for c := w - 1; c >= 0; c-- {
		r = smt.Ite(smt.Eq(s, smt.IntConst64(int64(c))), one(c), r)
	}
	return mkSym(k, r)
}

package interp

// Memory helpers for symgo: symbolic element pointers, undo-logged stores, deref helper.

import (
	"fmt"
	"go/types"
	"strings"

	"verif/symgo/smt"
)

func mustDeref(t types.Type) types.Type {
	if p, ok := t.Underlying().(*types.Pointer); ok {
		return p.Elem()
	}
	panic(fmt.Sprintf("mustDeref: %s is not a pointer", t))
}

func isInternalPanic(s string) bool {
	for _, p := range []string{"unexpected x type", "unexpected instruction", "cannot convert", "invalid binary op", "invalid unary op",
		"unsupported conversion", "cannot widen", "get: no value", "illegal map type", "unknown built-in", "cannot call", "cannot range", "zero: unexpected",
		"unhashable type", "termOf:", "bitsOf:", "concOf:", "truth:", "decideBool:", "toSString:"} {
		if strings.Contains(s, p) {
			return true
		}
	}
	return false
}

type loader interface{ loadElem() value }

// loadIdx loads through the result of symIndexAddr (a *symptr or a plain *value).
func loadIdx(p value) value {
	if l, ok := p.(loader); ok {
		return l.loadElem()
	}
	return *p.(*value)
}

// symptr is &elems[idx] for a symbolic idx over scalar elements.
type symptr struct {
	elems []value
	idx   *sym
}

type concptr struct{ p *value }

func (c concptr) loadElem() value { return *c.p }

func (sp *symptr) loadElem() value {
	n := len(sp.elems)
	var k types.BasicKind
	for _, e := range sp.elems {
		kk, _ := dynKind(e)
		k = kk
		break
	}
	t := termOf(sp.elems[n-1], k)
	for i := n - 2; i >= 0; i-- {
		ci := termOf(concOf(sp.idx.k, uint64(i)), sp.idx.k)
		t = smt.Ite(smt.Eq(sp.idx.t, ci), termOf(sp.elems[i], k), t)
	}
	return mkSym(k, t)
}

func (sp *symptr) concretePtr() *value {
	i := asInt64(sp.idx)
	return &sp.elems[i]
}

// symIndexAddr returns a *value, or a *symptr when the elements are scalars; forks an out-of-range panic path.
func symIndexAddr(elems []value, idx *sym) value {
	n := len(elems)
	var oob *smt.Term
	w := kindWidth(idx.k)
	fitsN := true // n representable in idx's type
	if kindSigned(idx.k) {
		fitsN = w >= 64 || uint64(n) < uint64(1)<<uint(w-1)
	} else {
		fitsN = w >= 64 || uint64(n) < uint64(1)<<uint(w)
	}
	switch {
	case X.IntMode:
		oob = smt.Or(smt.ILt(idx.t, smt.IntConst64(0)), smt.IGe(idx.t, smt.IntConst64(int64(n))))
	case kindSigned(idx.k) && fitsN:
		oob = smt.Or(smt.BVSlt(idx.t, smt.BVConst(0, w)), smt.BVSge(idx.t, smt.BVConst(uint64(n), w)))
	case kindSigned(idx.k):
		oob = smt.BVSlt(idx.t, smt.BVConst(0, w))
	case fitsN:
		oob = smt.BVUge(idx.t, smt.BVConst(uint64(n), w))
	default:
		oob = smt.False()
	}
	if X.Guard(oob) {
		panic(runtimeErr(fmt.Sprintf("index out of range [symbolic] with length %d", n)))
	}
	if n == 1 {
		return &elems[0]
	}
	scalar := n <= 2048
	var k0 types.BasicKind
	if scalar {
		for i, e := range elems {
			k, ok := dynKind(e)
			if !ok || (i > 0 && k != k0) {
				scalar = false
				break
			}
			k0 = k
		}
	}
	if scalar {
		return &symptr{elems: elems, idx: idx}
	}
	i := asInt64(idx)
	return &elems[i]
}

// ---- undo log for stores ----

type storeUndo struct {
	addr *value
	old  value
}

var storeLog []storeUndo

// undo log is a sequence of marks into storeLog and undoLog (closures); order between the two kinds matters
// only for overlapping effects, which do not occur (stores touch cells, closures touch map internals).

func logStore(addr *value) {
	if undoActive {
		storeLog = append(storeLog, storeUndo{addr, *addr})
	}
}

func rollbackHeap() {
	for i := len(storeLog) - 1; i >= 0; i-- {
		*storeLog[i].addr = storeLog[i].old
	}
	storeLog = storeLog[:0]
	for i := len(undoLog) - 1; i >= 0; i-- {
		undoLog[i]()
	}
	undoLog = undoLog[:0]
	mapWriteLog = mapWriteLog[:0]
}

func commitHeap() {
	storeLog = storeLog[:0]
	undoLog = undoLog[:0]
	mapWriteLog = mapWriteLog[:0]
}

// cloneAgg copies struct and array values (the interpreter represents them as Go slices, so a shallow copy
// would alias two addressable locations; upstream interp has this defect in append/copy).
func cloneAgg(v value) value {
	switch x := v.(type) {
	case structure:
		out := make(structure, len(x))
		for i := range x {
			out[i] = cloneAgg(x[i])
		}
		return out
	case array:
		out := make(array, len(x))
		for i := range x {
			out[i] = cloneAgg(x[i])
		}
		return out
	}
	return v
}

func cloneAggs(src []value) []value {
	needs := false
	for _, v := range src {
		switch v.(type) {
		case structure, array:
			needs = true
		}
		break
	}
	if !needs {
		return src
	}
	out := make([]value, len(src))
	for i, v := range src {
		out[i] = cloneAgg(v)
	}
	return out
}

func appendLogged(dst, src []value) []value {
	src = cloneAggs(src)
	if undoActive && len(dst)+len(src) <= cap(dst) {
		ext := dst[len(dst) : len(dst)+len(src)]
		for i := range ext {
			logStore(&ext[i])
		}
	}
	return append(dst, src...)
}

func copyLogged(dst, src []value) int {
	src = cloneAggs(src)
	n := len(dst)
	if len(src) < n {
		n = len(src)
	}
	if undoActive {
		for i := 0; i < n; i++ {
			logStore(&dst[i])
		}
	}
	return copy(dst, src)
}


const maxAllocElems = 1 << 22  // concrete allocations above this are outside the memory bound of the executor
const maxSymAllocElems = 64    // a symbolic allocation size is explored for 0..64 elements

// boundAlloc applies the executor's memory bound to an allocation size (property C05 excludes inputs sized
// beyond the stated memory bound): negative sizes panic as in Go, symbolic sizes are restricted to 0..64 (each
// explored), concrete sizes above 4M elements end the path as outside the bound.
func boundAlloc(n value) {
	if s, ok := n.(*sym); ok {
		if X.IntMode {
			return
		}
		w := kindWidth(s.k)
		if kindSigned(s.k) {
			if X.Guard(smt.BVSlt(s.t, smt.BVConst(0, w))) {
				panic(runtimeErr("makeslice: len out of range"))
			}
		}
		X.stub("symbolic allocation size restricted to 0..64 elements")
		X.Assume(symBool(smt.BVUle(s.t, smt.BVConst(maxSymAllocElems, w))))
		return
	}
	if v := asInt64(n); v > maxAllocElems {
		X.stub("allocation larger than 4M elements: outside the executor's memory bound")
		panic(pathEnd{endAssumeFalse, "allocation beyond the memory bound"})
	}
}

//go:build verif

package engine

// C01 — answers are those of depth-first, left-to-right SLD resolution, in order.

func init() { vHarnesses["VH_C01"] = func(int) {} }

var c01Cases = []vCase{
	{name: "facts-order", prog: "p(k0). p(k1). p(k2).", query: "p(X)."},
	{name: "facts-bound", prog: "p(k0). p(k1). p(k2).", query: "p(k3)."},
	{name: "conj-join", prog: "p(k0). p(k1). q(k2). q(k3).", query: "p(X), q(X)."},
	{name: "conj-product", prog: "p(k0). p(k1). q(k2). q(k3).", query: "p(X), q(Y)."},
	{name: "rule-chain", prog: "p(k0). p(k1). q(X) :- p(X). r(X) :- q(X), p(X).", query: "r(X)."},
	{name: "shared-var-siblings", prog: "p(k0). p(k1). q(X, Y) :- p(X), p(Y).", query: "q(A, B)."},
	{name: "repeated-head-var", prog: "e(X, X). p(k0, k1). p(k2, k2).", query: "p(A, B), e(A, B)."},
	{name: "struct-args", prog: "p(f(k0), g(k1, k2)). p(f(k1), g(k0, k0)).", query: "p(f(X), g(X, Y))."},
	{name: "struct-build", prog: "mk(X, f(X, g(X))). p(k0). p(k1).", query: "p(A), mk(A, T)."},
	{name: "list-head", prog: "h([X|_], X). p([k0, k1]). p([k2]). p([]).", query: "p(L), h(L, E)."},
	{name: "list-member", prog: "m(X, [X|_]). m(X, [_|T]) :- m(X, T).", query: "m(E, [k0, k1, k2])."},
	{name: "list-member-check", prog: "m(X, [X|_]). m(X, [_|T]) :- m(X, T).", query: "m(k3, [k0, k1, k2])."},
	{name: "append-split", prog: "app([], L, L). app([H|T], L, [H|R]) :- app(T, L, R).", query: "app(X, Y, [k0, k1])."},
	{name: "append-join", prog: "app([], L, L). app([H|T], L, [H|R]) :- app(T, L, R).", query: "app([k0], [k1, k2], Z)."},
	{name: "head-two-prefix-recursion", prog: "pairs([]). pairs([_, _|T]) :- pairs(T).", query: "pairs([k0, k1, k2, k3])."},
	{name: "head-two-prefix-collect", prog: "ev([], []). ev([_, X|T], [X|R]) :- ev(T, R).", query: "ev([k0, k1, k2, k3], L)."},
	{name: "head-two-prefix-rest", prog: "rest([_, _|T], T). nil([]).", query: "rest([k0, k1], T), nil(T)."},
	{name: "head-three-prefix-exact", prog: "t3([A, B, C|T], A, B, C, T).", query: "t3([k0, k1, k2], X, Y, Z, T), T = []."},
	{name: "head-prefix-vs-longer-shorter", prog: "h2([A, B|T], A-B-T).", query: "( L = [k0] ; L = [k0, k1] ; L = [k0, k1, k2] ; L = [k0, k1|_] ; L = \"ab\" ), h2(L, R)."},
	{name: "head-string-literal", prog: "kw(\"ab\", yes). kw([k0|_], maybe).", query: "( L = [a, b] ; L = [a|T] ; L = \"ab\" ; L = [k1, b] ), kw(L, R)."},
	{name: "underscore-named-variable-shared", prog: "par(k0, k1). par(k1, k2). par(k0, k3). gr(X, Z) :- par(X, _Y), par(_Y, Z).", query: "gr(k0, Z)."},
	{name: "underscore-named-variable-head", prog: "same(_X, _X). two(_, _).", query: "same(k0, Y), two(k0, k1), \\+ same(k0, k4)."},
	{name: "underscore-named-variable-query", prog: "par(k0, k1). par(k1, k2). par(k0, k3).", query: "par(k0, _C), par(_C, G)."},
	{name: "variable-name-forms", prog: "v(_1, _1, __, __, X1, X1, Xy_z, Xy_z). w(_, _).", query: "v(k0, A, k1, B, k2, C, k3, D), w(k0, k1)."},
	{name: "partial-list-arg", prog: "p([k0|T], T). p([k1, k2|T], T).", query: "p([A|B], [k3])."},
	{name: "mutual-recursion", prog: "ev(z). ev(s(X)) :- od(X). od(s(X)) :- ev(X).", query: "ev(s(s(z))), od(s(z))."},
	{name: "nat-gen", prog: "n(z). n(s(X)) :- n(X).", query: "n(X).", max: 4},
	{name: "top-disj", prog: "p(X) :- X = k0 ; X = k1 ; X = k2.", query: "p(X)."},
	{name: "top-disj-join", prog: "p(X) :- q(X) ; r(X). q(k0). q(k1). r(k2). r(k0).", query: "p(X), q(X)."},
	{name: "nested-disj", prog: "p(X, Y) :- q(X), (Y = k0 ; Y = X). q(k1). q(k2).", query: "p(A, B)."},
	{name: "nested-disj-3", prog: "p(X) :- (X = k0 ; X = k1), (X = k2 ; X = k0).", query: "p(X)."},
	{name: "call1", prog: "p(k0). p(k1). q(G) :- call(G).", query: "q(p(X))."},
	{name: "call2", prog: "p(k0, k1). p(k1, k2). q(G, A) :- call(G, A).", query: "q(p(k3), Y)."},
	{name: "call3", prog: "p(k0, k1). p(k1, k2).", query: "G = p, call(G, X, Y)."},
	{name: "call-conj", prog: "p(k0). p(k1). q(k1). q(k2).", query: "call((p(X), q(X)))."},
	{name: "var-goal", prog: "p(k0). p(k1). r(G) :- G.", query: "r(p(X))."},
	{name: "fresh-per-activation", prog: "p(X, Y) :- q(X), q(Y). q(_).", query: "p(A, B)."},
	{name: "no-leak-between-answers", prog: "p(X) :- X = f(_). q(A, B) :- p(A), p(B).", query: "q(A, B), A = f(k0)."},
	{name: "deep-backtrack", prog: "a(k0). a(k1). b(k1). b(k2). c(k2). c(k0). t(X, Y, Z) :- a(X), b(Y), c(Z), X = Y.", query: "t(X, Y, Z)."},
	{name: "fail-then-more", prog: "p(k0). p(k1). p(k2). q(X) :- p(X), X = k3.", query: "q(X)."},
	{name: "unknown-procedure", prog: "p(k0).", query: "p(X), nosuch(X)."},
	{name: "unbound-goal", prog: "p(k0).", query: "p(X), call(_)."},
	{name: "int-consts", prog: "p(n0). p(n1). q(n2).", query: "p(X), q(X)."},
	{name: "int-vs-atom", prog: "p(n0). p(k0). p(1).", query: "p(X), p(Y), X = Y.", max: 8},
	{name: "three-level", prog: "a(X) :- b(X), c(X). b(X) :- d(X). b(k0). c(k0). c(k1). d(k1). d(k0).", query: "a(X)."},
	{name: "arity-overload", prog: "p(k0). p(k0, k1). p(X) :- p(X, _).", query: "p(Z)."},
}

// VH_C01 is called from package prolog with the interpreter built by the real New().
func VH_C01(vm *VM, inst int) {
	vRunCase(vm, c01Cases[inst], "", false)
}

func VH_C01_N() int { return len(c01Cases) }

// ---- generated family: heads of every small arity and argument shape x bodies with top-level disjunctions ----
//
// h(A1..An) :- Alt1 ; Alt2 [; Alt3].   with n in 0..6, argument shapes by case split, alternatives from a menu.
// Query: h(B1..Bn) with fresh variables (all answers), compared with the reference.

var c01AltMenu = 6

func c01Alt(i int, x Term, k0, k1 Term) Term {
	switch i {
	case 0:
		return xTrue
	case 1:
		return xFail
	case 2:
		return xEqual.Apply(x, k0)
	case 3:
		return xEqual.Apply(x, k1)
	case 4:
		return vA("q").Apply(x)
	}
	return vConj(vA("q").Apply(x), xEqual.Apply(x, k0))
}

// c01GenClause draws one clause of the family; returns the program, the head, the alternatives and the query.
func c01GenClause(n int) (clauses []Term, head Term, alts []Term, query Term, vars []Variable) {
	k0, k1 := vK("k0", 2), vK("k1", 2)
	x := NewVariable()
	args := make([]Term, n)
	for i := range args {
		switch choice("argshape", 4) {
		case 0:
			args[i] = NewVariable()
		case 1:
			args[i] = x
		case 2:
			args[i] = PartialList(NewVariable(), x)
		case 3:
			args[i] = vA("f").Apply(x, NewVariable())
		}
		if i >= 2 && n > 3 {
			// keep the product small: beyond the second argument only plain variables / x
			if _, ok := args[i].(Variable); !ok {
				assume(false)
			}
		}
	}
	nalt := 2 + choice("nalt", 2)
	alts = make([]Term, nalt)
	for i := range alts {
		alts[i] = c01Alt(choice("alt", c01AltMenu), x, k0, k1)
	}
	head = vA("h").Apply(args...)
	clauses = []Term{
		vRule(head, vDisj(alts...)),
		vA("q").Apply(k0),
		vA("q").Apply(k1),
	}
	qargs := make([]Term, n)
	vars = make([]Variable, n)
	for i := range qargs {
		v := NewVariable()
		qargs[i], vars[i] = v, v
	}
	return clauses, head, alts, vA("h").Apply(qargs...), vars
}

// VH_C01_gen: inst = head arity (0..6).
func VH_C01_gen(vm *VM, inst int) {
	clauses, _, _, q, vars := c01GenClause(inst)
	note("case", "gen-disj arity "+string(rune('0'+inst)))
	vRunTerms(vm, "gen-disj", clauses, q, vars, 8, 400, "", false)
}

// ---- generated family 2: every program of 1..3 clauses for p/1 drawn from a clause menu ----

var c01Menu = []string{
	"p(k0).",
	"p(k1).",
	"p(X) :- q(X).",
	"p(X) :- q(X), r(X).",
	"p(X) :- r(X) ; q(X).",
	"p(f(X)) :- q(X).",
	"p(X) :- \\+ q(X), r(X).",
	"p(X) :- q(Y), X = g(Y).",
}

// with cuts (C03)
var c03Menu = []string{
	"p(k0).",
	"p(X) :- q(X).",
	"p(X) :- q(X), !.",
	"p(X) :- !, r(X).",
	"p(X) :- q(X), !, r(X).",
	"p(X) :- r(X), \\+ q(X), !.",
	"p(X) :- ( q(X), ! ; r(X) ).",
	"p(X) :- ( q(X) -> r(X) ; X = k2 ).",
	"p(X) :- call((q(X), !)).",
	"p(X) :- q(X), r(X), !.",
}

var c01Queries = []string{"p(X).", "p(k0).", "o(A), p(X).", "p(X), p(Y), X == Y.", "p(f(Z)).", "\\+ p(k2).", "findall(X, p(X), L)."}

// VH_gen2: inst = query index * 3 + (number of clauses - 1); each clause by case split over the menu.
func VH_gen2(vm *VM, inst int, cuts bool) {
	menu := c01Menu
	if cuts {
		menu = c03Menu
	}
	n := 1 + inst%3
	q := c01Queries[(inst/3)%len(c01Queries)]
	prog := "q(k0). q(k1). r(k1). r(k2). o(k0). o(k1). "
	for i := 0; i < n; i++ {
		prog += menu[choice("clause", len(menu))] + " "
	}
	c := vCase{name: "gen2", prog: prog, query: q}
	vRunCase(vm, c, "", false)
	reach("gen2", true)
}

// ---- generated family 3: every parenthesisation of a conjunction of 4..5 filtering goals ----

// VH_C01_shape: inst = context*2 + (leaves-4). Every goal of the conjunction restricts the answers, so a goal that is
// dropped, duplicated or reordered by the way the body is flattened changes them.
func VH_C01_shape(vm *VM, inst int) {
	n := 4 + inst%2
	ctx := inst / 2
	leaves := []string{"q(X)", "r(Y)", "s(X)", "t(Y)", "X \\== Y"}[:n]
	trees := c03Trees(leaves)
	body := trees[choice("shape", len(trees))]
	base := "q(k0). q(k1). q(k2). r(k0). r(k1). r(k2). s(k1). s(k2). t(k0). t(k2). "
	var c vCase
	switch ctx {
	case 0:
		c = vCase{name: "conj-shape-body", prog: base + "p(X, Y) :- " + body + ".", query: "p(X, Y)."}
	case 1:
		c = vCase{name: "conj-shape-query", prog: base, query: body + "."}
	case 2:
		c = vCase{name: "conj-shape-call", prog: base, query: "G = (" + body + "), call(G)."}
	default:
		c = vCase{name: "conj-shape-findall", prog: base, query: "findall(X-Y, (" + body + "), L)."}
	}
	vRunCase(vm, c, "", false)
	reach("c01/shape", true)
}

//go:build verif

package engine

import "strings"

// C03 — cut removes exactly the clause-level choice points; call/N makes it local.
// C04 — throw/1 unwinds to the innermost still-executing catch/3, undoing bindings.

var c03Cases = []vCase{
	{name: "cut-first-clause", prog: "p(k0) :- !. p(k1). p(k2).", query: "p(X)."},
	{name: "cut-after-choice", prog: "q(k0). q(k1). q(k2). p(X) :- q(X), !.", query: "p(X)."},
	{name: "cut-then-choice", prog: "q(k0). q(k1). r(k2). r(k3). p(X, Y) :- q(X), !, r(Y).", query: "p(X, Y)."},
	{name: "cut-keeps-older", prog: "o(k0). o(k1). q(k2). q(k3). p(Y) :- q(Y), !. t(X, Y) :- o(X), p(Y).", query: "t(X, Y)."},
	{name: "cut-keeps-outer-clauses", prog: "q(k0). q(k1). p(Y) :- q(Y), !. t(Y) :- p(Y). t(k2).", query: "t(Y)."},
	{name: "cut-removes-own-clauses", prog: "q(k0). q(k1). p(Y) :- q(Y), !. p(k2).", query: "p(Y)."},
	{name: "cut-fail", prog: "p(k0) :- !, fail. p(k1).", query: "p(X)."},
	{name: "cut-fail-match", prog: "p(X) :- X = k0, !, fail. p(_).", query: "p(k1)."},
	{name: "cut-last-clause", prog: "q(k0). q(k1). p(k2). p(X) :- q(X), !.", query: "p(X)."},
	{name: "cut-middle", prog: "a(k0). a(k1). b(k0). b(k1). c(k0). c(k1). p(X, Y, Z) :- a(X), b(Y), !, c(Z).", query: "p(X, Y, Z)."},
	{name: "cut-test-then", prog: "q(k0). q(k1). q(k2). p(X) :- q(X), X = k3, !.", query: "p(X)."},
	{name: "cut-recursive", prog: "m(X, [X|_]) :- !. m(X, [_|T]) :- m(X, T).", query: "m(k0, [k1, k2, k3])."},
	{name: "cut-recursive-gen", prog: "m(X, [X|_]) :- !. m(X, [_|T]) :- m(X, T).", query: "m(E, [k1, k2])."},
	{name: "cut-in-caller-and-callee", prog: "q(k0). q(k1). r(k0). r(k1). in(Y) :- r(Y), !. out(X, Y) :- q(X), in(Y), !.", query: "out(X, Y)."},
	{name: "cut-two-in-body", prog: "q(k0). q(k1). r(k2). r(k3). p(X, Y) :- q(X), !, r(Y), !. o(k0). o(k1).", query: "o(A), p(X, Y)."},
	{name: "cut-two-in-body-clauses", prog: "q(k0). q(k1). p(X) :- q(X), !, true, !. p(k2). t(X) :- p(X). t(k3).", query: "t(X)."},
	{name: "cut-in-top-disjunct-1", prog: "q(k0). q(k1). p(X) :- q(X), ! ; X = k2.", query: "p(X)."},
	{name: "cut-in-top-disjunct-2", prog: "q(k0). q(k1). p(X) :- X = k2 ; q(X), !.", query: "p(X)."},
	{name: "cut-in-top-disjunct-outer", prog: "q(k0). q(k1). o(k0). o(k1). p(X) :- q(X), ! ; X = k2. t(A, X) :- o(A), p(X).", query: "t(A, X)."},
	{name: "call-cut-local", prog: "q(k0). q(k1). p(X) :- call((q(X), !)). p(k2).", query: "p(X)."},
	{name: "call-cut-local-outer-choice", prog: "q(k0). q(k1). o(k2). o(k3).", query: "o(A), call((q(X), !))."},
	{name: "call1-bang", prog: "q(k0). q(k1).", query: "q(X), call(!)."},
	{name: "call2-cut", prog: "q(k0). q(k1). c(G, X) :- call(G, X), !. c(_, k2).", query: "c(q, X)."},
	{name: "var-goal-cut-local", prog: "q(k0). q(k1). p(G, X) :- q(X), G. ", query: "p(!, X)."},
	{name: "naf-basic", prog: "q(k0). q(k1).", query: "\\+ q(k2)."},
	{name: "naf-no-binding", prog: "q(k0). p(X) :- \\+ q(X), X = k1.", query: "p(X)."},
	{name: "naf-filter", prog: "q(k0). q(k1). r(k1). r(k2). p(X) :- q(X), \\+ r(X).", query: "p(X)."},
	{name: "naf-cut-local", prog: "q(k0). q(k1). p(X) :- q(X), \\+ (r(X), !). r(k1).", query: "p(X)."},
	{name: "once-basic", prog: "q(k0). q(k1). q(k2).", query: "once(q(X))."},
	{name: "once-keeps-outer", prog: "q(k0). q(k1). o(k2). o(k3).", query: "o(A), once(q(X))."},
	{name: "once-binding-used", prog: "q(k0). q(k1). r(k1).", query: "once(q(X)), r(X)."},
	{name: "once-cut-inside", prog: "q(k0). q(k1). o(k2). o(k3).", query: "o(A), once((q(X), !))."},
	{name: "once-in-clause-with-others", prog: "q(k0). q(k1). p(X) :- once(q(X)). p(k2).", query: "p(X)."},
	{name: "ite-then", prog: "q(k0). q(k1). r(k2). r(k3).", query: "( q(X) -> r(Y) ; Y = k0 )."},
	{name: "ite-else", prog: "q(k0). r(k2). r(k3).", query: "( q(k1) -> Y = k0 ; r(Y) )."},
	{name: "ite-cond-once", prog: "q(k0). q(k1). q(k2).", query: "( q(X), X = k3 -> Y = yes ; Y = no )."},
	{name: "ite-keeps-outer", prog: "q(k0). q(k1). o(k2). o(k3).", query: "o(A), ( q(X) -> true ; X = none )."},
	{name: "ite-in-clause", prog: "q(k0). q(k1). p(X, R) :- ( q(X) -> R = in ; R = out ). p(_, last).", query: "p(k2, R)."},
	{name: "it-no-else", prog: "q(k0). q(k1).", query: "( q(k2) -> true )."},
	{name: "it-no-else-then-choice", prog: "q(k0). q(k1). r(k2). r(k3).", query: "( q(X) -> r(Y) )."},
	{name: "ite-nested", prog: "q(k0). r(k1).", query: "( q(k2) -> A = one ; r(k3) -> A = two ; A = three )."},
	{name: "findall-cut-local", prog: "q(k0). q(k1). o(k2). o(k3).", query: "o(A), findall(X, (q(X), !), L)."},
	{name: "catch-cut-local", prog: "q(k0). q(k1). o(k2). o(k3).", query: "o(A), catch((q(X), !), _, true)."},
	{name: "cut-through-conj-call", prog: "q(k0). q(k1). p(X) :- (q(X), !). p(k2).", query: "p(X)."},
	{name: "cut-after-ite", prog: "q(k0). q(k1). p(X) :- ( q(X) -> true ; X = k2 ), !. p(k3).", query: "p(X)."},
	{name: "cut-after-naf", prog: "q(k0). p(X) :- \\+ q(X), !, X = k1. p(k2).", query: "p(X)."},
	{name: "callN-comma-cut", prog: "q(k0). q(k1). q(k2). o(k0). o(k1).", query: "o(A), call(',', q(X), !)."},
	{name: "callN-comma-closure-cut", prog: "q(k0). q(k1). q(k2).", query: "call(','(q(X)), !)."},
	{name: "callN-comma-cut-then-test", prog: "q(k0). q(k1). q(k2).", query: "call(',', q(X), (!, X == k1))."},
	{name: "callN-comma-findall", prog: "q(k0). q(k1). q(k2).", query: "findall(X, call(',', q(X), !), L)."},
	{name: "callN-semicolon", prog: "q(k0). q(k1).", query: "call(';', q(X), X = k3)."},
	{name: "callN-semicolon-cut-local", prog: "q(k0). q(k1). o(k0). o(k1).", query: "o(A), call(';', (q(X), !), X = k3)."},
	{name: "callN-ifthen", prog: "q(k0). q(k1). r(k2). r(k3).", query: "call('->', q(X), r(Y))."},
	{name: "callN-ifthenelse", prog: "q(k0). r(k2). r(k3).", query: "call(';', (q(k1) -> Y = k0), r(Y))."},
	{name: "callN-comma-noncallable", prog: "", query: "catch(call(',', fail, 1), error(E, _), true)."},
	{name: "callN-naf", prog: "q(k0).", query: "call(\\+, q(k1))."},
	{name: "callN-call", prog: "q(k0). q(k1).", query: "call(call, (q(X), !))."},
	{name: "cut-deep-recursion", prog: "c(z, k0) :- !. c(s(N), X) :- c(N, X). c(_, k1).", query: "c(s(s(z)), X)."},
}

// ---- generated family: every parenthesisation of a conjunction with a cut at every position ----

// c03Trees renders every binary tree over leaves[l:r] as a parenthesised conjunction.
func c03Trees(leaves []string) []string {
	if len(leaves) == 1 {
		return []string{leaves[0]}
	}
	var out []string
	for cut := 1; cut < len(leaves); cut++ {
		for _, a := range c03Trees(leaves[:cut]) {
			for _, b := range c03Trees(leaves[cut:]) {
				if cut > 1 {
					a2 := "(" + a + ")"
					out = append(out, a2+", "+c03Paren(b, len(leaves)-cut))
					_ = a2
				} else {
					out = append(out, a+", "+c03Paren(b, len(leaves)-cut))
				}
			}
		}
	}
	return out
}

// c03TreesSep: every binary tree over the leaves joined by sep, with explicit parentheses around every inner node.
func c03TreesSep(leaves []string, sep string) []string {
	if len(leaves) == 1 {
		return []string{leaves[0]}
	}
	var out []string
	for cut := 1; cut < len(leaves); cut++ {
		for _, a := range c03TreesSep(leaves[:cut], sep) {
			for _, b := range c03TreesSep(leaves[cut:], sep) {
				out = append(out, "("+a+sep+b+")")
			}
		}
	}
	return out
}

// VH_C03_disj: every parenthesisation of a disjunction of 3..4 alternatives of which one (position by case split) is
// an if-then C -> T (so that, wherever it is the left operand of a ;, it forms an if-then-else with what is on its
// right), in 3 contexts. inst = context*2 + (alternatives-3).
func VH_C03_disj(vm *VM, inst int) {
	n := 3 + inst%2
	ctx := inst / 2
	pos := choice("itpos", n)
	alts := []string{"X = k0", "r(X)", "X = k2", "s(X)"}[:n]
	alts[pos] = "( q(X) -> r(Y) )"
	trees := c03TreesSep(alts, " ; ")
	body := trees[choice("shape", len(trees))]
	base := "q(k0). q(k1). r(k0). r(k1). s(k1). s(k2). o(k0). o(k1). "
	var c vCase
	switch ctx {
	case 0:
		c = vCase{name: "disj-shape-body", prog: base + "p(X, Y) :- " + body + ". p(k2, k2).", query: "o(A), p(X, Y)."}
	case 1:
		c = vCase{name: "disj-shape-call", prog: base, query: "o(A), call(" + body + ")."}
	default:
		c = vCase{name: "disj-shape-findall", prog: base, query: "findall(X-Y, " + body + ", L)."}
	}
	vRunCase(vm, c, "", false)
	reach("c03/disj", true)
}

func c03Paren(s string, n int) string {
	if n > 1 {
		return "(" + s + ")"
	}
	return s
}

// VH_C03_shape: inst = context*2 + (number of leaves - 3). The body is q(X), then goals of which exactly one is a cut
// (position by case split), the one after the cut being the nondeterministic r(Y); the shape of the conjunction tree
// is a case split over all parenthesisations (2 for 3 leaves, 5 for 4). Contexts: 0 clause body followed by another
// clause, 1 top-level disjunct, 2 goal of call/1 inside a disjunction, 3 body of a clause called through call/2.
func VH_C03_shape(vm *VM, inst int) {
	n := 3 + inst%2
	ctx := inst / 2
	cutPos := 1 + choice("cutpos", n-1)
	leaves := make([]string, n)
	leaves[0] = "q(X)"
	for i := 1; i < n; i++ {
		switch {
		case i == cutPos:
			leaves[i] = "!"
		case i == cutPos+1:
			leaves[i] = "r(Y)"
		case i < cutPos:
			leaves[i] = "s(X)"
		default:
			leaves[i] = "true"
		}
	}
	trees := c03Trees(leaves)
	body := trees[choice("shape", len(trees))]
	base := "q(k0). q(k1). r(k0). r(k1). s(k0). s(k1). o(k0). o(k1). "
	var c vCase
	switch ctx {
	case 0:
		c = vCase{name: "shape-body", prog: base + "p(X, Y) :- " + body + ". p(k2, k2).", query: "o(A), p(X, Y)."}
	case 1:
		c = vCase{name: "shape-disjunct", prog: base + "p(X, Y) :- ( " + body + " ; X = k2 ).", query: "o(A), p(X, Y)."}
	case 2:
		c = vCase{name: "shape-call", prog: base, query: "o(A), call(((" + body + ") ; X = k2))."}
	default:
		c = vCase{name: "shape-call2", prog: base + "p(X, Y) :- " + body + ". p(k2, k2). c(G, X, Y) :- call(G, X, Y).", query: "o(A), c(p, X, Y)."}
	}
	note("case", c.prog+" ?- "+c.query)
	vRunCase(vm, c, "", false)
	reach("c03/shape", true)
}

func VH_C03(vm *VM, inst int) {
	c := c03Cases[inst]
	vRunCase(vm, c, "", false)
}

var c04Cases = []vCase{
	{name: "catch-basic", prog: "", query: "catch(throw(k0), B, true)."},
	{name: "catch-match", prog: "", query: "catch(throw(k0), k1, R = caught)."},
	{name: "catch-no-throw", prog: "q(k0). q(k1).", query: "catch(q(X), _, X = err)."},
	{name: "catch-undoes-bindings", prog: "q(k0).", query: "catch((X = k1, q(Y), throw(oops)), oops, true)."},
	{name: "catch-undoes-bindings-2", prog: "", query: "catch((X = k0, throw(b(X))), b(Y), true)."},
	{name: "catch-ball-copy", prog: "", query: "catch(throw(f(X, Y, X)), B, true)."},
	{name: "catch-ball-shares-var", prog: "", query: "catch((X = k0, throw(f(X, Z))), f(A, B), true)."},
	{name: "catch-nested-inner", prog: "", query: "catch(catch(throw(k0), k1, R = inner), k0, R = outer)."},
	{name: "catch-nested-rethrow", prog: "", query: "catch(catch(throw(k0), k0, throw(k1)), k1, R = outer)."},
	{name: "catch-uncaught", prog: "", query: "catch(throw(k0), k1, true)."},
	{name: "throw-uncaught", prog: "q(k0). q(k1).", query: "q(X), throw(ball(X))."},
	{name: "throw-var", prog: "", query: "catch(throw(_), E, true)."},
	{name: "catch-nondeterministic-goal", prog: "q(k0). q(k1). q(k2).", query: "catch(q(X), _, true)."},
	{name: "catch-throw-on-second", prog: "q(k0). q(k1). t(X) :- X = k2, throw(second(X)). t(_).", query: "catch((q(X), t(X)), second(Y), R = caught)."},
	{name: "catch-recovery-fails", prog: "", query: "catch(throw(k0), _, fail)."},
	{name: "catch-recovery-nondeterministic", prog: "q(k0). q(k1).", query: "catch(throw(x), _, q(X))."},
	{name: "catch-recovery-throws", prog: "", query: "catch(catch(throw(a), _, throw(k0)), B, true)."},
	{name: "catch-exited-not-active", prog: "", query: "catch(X = k0, _, R = caught), throw(after(X))."},
	{name: "catch-exited-not-active-2", prog: "", query: "catch(catch(true, _, R = inner), k0, R = outer), throw(k0)."},
	{name: "catch-exited-outer-still-active", prog: "", query: "catch((catch(true, _, R = inner), throw(k0)), k1, R = outer)."},
	{name: "catch-exited-in-pred", prog: "f(X) :- catch(X = k0, _, X = k1).", query: "f(X), throw(t(X))."},
	{name: "catch-reactivated-on-backtrack", prog: "q(k0). q(k1). t(X) :- X = k2, throw(late).", query: "catch(q(X), late, R = caught), emit(X), ( X = k3 -> fail ; true )."},
	{name: "catch-redo-then-throw-inside", prog: "g(k0). g(X) :- X = k1, throw(redo).", query: "catch(g(X), redo, R = caught), X = k2."},
	{name: "throw-user-error-context-stays-unbound", prog: "", query: "catch(throw(error(k0, _)), error(E, C), true), C = k1."},
	{name: "throw-user-error-catcher-with-context", prog: "", query: "catch(throw(error(k0, _)), error(k0, here), R = caught)."},
	{name: "throw-user-error-uncaught", prog: "", query: "throw(error(k0, _))."},
	{name: "throw-user-error-bound-context", prog: "", query: "catch(throw(error(k0, k1)), error(E, k2), R = inner)."},
	{name: "throw-user-error-nested-selects-inner", prog: "", query: "catch(catch(throw(error(k0, _)), error(k0, ctx), R = inner), _, R = outer)."},
	{name: "catch-builtin-error-type", prog: "", query: "catch(X is foo + 1, error(type_error(T, C), _), true)."},
	{name: "catch-builtin-error-inst", prog: "", query: "catch(X is _ + 1, error(E, _), true)."},
	{name: "catch-unknown-proc", prog: "", query: "catch(nosuch(k0), error(existence_error(procedure, PI), _), true)."},
	{name: "catch-call-noncallable", prog: "", query: "catch(call(1), error(type_error(T, C), _), true)."},
	{name: "catch-call-unbound", prog: "", query: "catch(call(_), error(E, _), true)."},
	{name: "catch-goal-unbound", prog: "", query: "catch(G, error(E, _), true)."},
	{name: "error-uncaught-builtin", prog: "", query: "X is foo + 1."},
	{name: "catch-in-findall", prog: "q(k0). q(k1). t(X) :- X = k2, throw(bad). t(_).", query: "findall(X-R, (q(X), catch((t(X), R = ok), bad, R = caught)), L)."},
	{name: "throw-out-of-findall", prog: "q(k0). q(k1).", query: "catch(findall(X, (q(X), throw(f(X))), L), f(Y), true)."},
	{name: "throw-out-of-naf", prog: "", query: "catch(\\+ throw(k0), B, true)."},
	{name: "throw-in-ite-cond", prog: "", query: "catch(( throw(k0) -> R = then ; R = else ), B, true)."},
	{name: "catch-cut-then-throw", prog: "q(k0). q(k1).", query: "catch((q(X), !, throw(f(X))), f(Y), true)."},
	{name: "catch-then-cut-clause", prog: "q(k0). q(k1). p(X) :- catch(q(X), _, true), !. p(k2).", query: "p(X)."},
	{name: "trace-order", prog: "q(k0). q(k1).", query: "catch((q(X), emit(in(X)), X = k2, throw(t)), t, emit(caught)), emit(after)."},
	{name: "trace-exited-catch", prog: "", query: "catch(emit(goal), _, emit(recovery)), emit(after), throw(k0)."},
	{name: "catch-rethrow-to-outer", prog: "t :- throw(k0).", query: "catch(catch(t, k1, R = inner), B, R = outer)."},
	{name: "catch-deep", prog: "d(z) :- throw(bottom). d(s(N)) :- d(N).", query: "catch(d(s(s(z))), B, true)."},
	{name: "catch-two-siblings", prog: "", query: "catch(throw(k0), k0, A = one), catch(throw(k1), k0, B = two)."},
	// catch/3 frames that exited inside user predicates, at several nesting depths, then a later throw
	{name: "exited-nested-preds", prog: "inner :- catch(true, _, true). outer :- catch(inner, E, emit(rec(E))).", query: "outer, emit(step), throw(k0)."},
	{name: "exited-nested-preds-fail-recovery", prog: "inner :- catch(true, _, true). guarded :- catch(inner, _, fail).", query: "guarded, X is foo + 1."},
	{name: "exited-nested-3", prog: "c1 :- catch(true, _, emit(r1)). c2 :- catch(c1, _, emit(r2)). c3 :- catch(c2, _, emit(r3)).", query: "c3, emit(step), throw(k0)."},
	{name: "exited-nested-direct-3", prog: "", query: "catch(catch(catch(true, _, emit(r1)), _, emit(r2)), _, emit(r3)), emit(step), throw(k0)."},
	{name: "exited-inner-active-outer-preds", prog: "inner :- catch(true, _, emit(ri)).", query: "catch((inner, emit(step), throw(k0)), B, emit(caught(B)))."},
	{name: "exited-two-inner-active-outer", prog: "i1 :- catch(true, _, emit(r1)). i2 :- catch(i1, _, emit(r2)).", query: "catch((i2, i1, throw(k0)), k1, emit(outer))."},
	{name: "exited-then-nondeterministic", prog: "q(k0). q(k1). g(X) :- catch(q(X), _, emit(rec)).", query: "g(X), emit(got(X)), X = k2, throw(late(X))."},
	{name: "exited-sibling-then-nested", prog: "a :- catch(true, _, emit(ra)). b :- catch(a, _, emit(rb)).", query: "a, b, a, throw(k0)."},
	{name: "exited-in-recovery", prog: "h :- catch(true, _, emit(rh)).", query: "catch(throw(k0), k0, (h, emit(in_recovery))), throw(k1)."},
	{name: "exited-inside-findall", prog: "h(X) :- catch(X = k0, _, emit(rh)).", query: "catch(findall(X, (h(X), throw(f(X))), L), f(Y), emit(caught(Y)))."},
	{name: "reactivated-nested", prog: "q(k0). q(k1). in(X) :- catch(q(X), B, emit(ri(B))). out(X) :- catch(in(X), B, emit(ro(B))). t(X) :- X = k2 -> throw(boom) ; true.", query: "out(X), emit(x(X)), t(X), fail."},
}

func VH_C04(vm *VM, inst int) {
	vRunCase(vm, c04Cases[inst], "", false)
}

// ---- C04 generated family: two nested catch/3 with every combination of goal shape, ball, catcher and recovery ----

// VH_C04_gen: inst%5 = shape of the outer goal; inst/5 = 0 small menus (quick), 1 full menus.
func VH_C04_gen(vm *VM, inst int) {
	full := inst/5 == 1
	balls := []string{"k0", "k1", "f(X)"}
	catchers := []string{"k0", "k1", "_", "f(Z)"}
	recov := []string{"true", "emit(rec)", "throw(k2)", "fail"}
	inner := []string{"throw(BALL2)", "true", "q(Y)", "(q(Y), throw(BALL2))"}
	if !full {
		balls = balls[:2]
		catchers = []string{"k0", "_", "f(Z)"}
		recov = recov[:3]
		inner = []string{"throw(BALL2)", "q(Y)"}
	}
	pick := func(name string, menu []string) string { return menu[choice(name, len(menu))] }
	b1, b2 := pick("ball", balls), pick("ball2", balls)
	c1, c2 := pick("catcher", catchers), pick("catcher2", catchers)
	r1, r2 := pick("recovery", recov), pick("recovery2", recov)
	if r2 == "emit(rec)" {
		r2 = "emit(rec2)"
	}
	g2 := pick("inner", inner)
	in := "catch(" + g2 + ", " + c2 + ", " + r2 + ")"
	var g1 string
	switch inst % 5 {
	case 0:
		g1 = "throw(BALL)"
	case 1:
		g1 = "(q(X), emit(X), throw(BALL))"
	case 2:
		g1 = in
	case 3:
		g1 = "(" + in + ", emit(after_inner), throw(BALL))"
	case 4:
		g1 = "(q(X), " + in + ", emit(X))"
	}
	query := "catch(" + g1 + ", " + c1 + ", " + r1 + "), emit(done)."
	query = strings.ReplaceAll(query, "BALL2", b2)
	query = strings.ReplaceAll(query, "BALL", b1)
	c := vCase{name: "c04-gen", prog: "q(k0). q(k1).", query: query}
	vRunCase(vm, c, "", false)
	reach("c04/gen", true)
}

//go:build verif

package engine

import "context"

func ctxBackground() context.Context { return context.Background() }

//go:build verif

package engine

// C16 — relational built-ins enumerate exactly their relation in every call mode.

import (
	"context"
	"strings"
	"unicode/utf8"
)

// c16Ask runs goal and returns the rows of vars (plain terms), the status and the error kind.
func c16Ask(vm *VM, goal Term, vars []Variable, max int) ([][]Term, string, string) {
	r := vRunImpl(vm, goal, vars, max, nil)
	kind := ""
	if r.status == "error" {
		kind = c18ErrKind(r.err)
	}
	return r.answers, r.status, kind
}

func c16Vars(n int) ([]Variable, []Term) {
	vs := make([]Variable, n)
	ts := make([]Term, n)
	for i := range vs {
		vs[i] = NewVariable()
		ts[i] = vs[i]
	}
	return vs, ts
}

// c16Expect: the answer sequence equals want (rows compared by identity of atomic values / variant of structure).
func c16Expect(what string, rows [][]Term, status string, want [][]Term) {
	verify(status != "error", what+": raised an error inside its mode")
	verify(len(rows) == len(want), what+": number of answers differs from the relation")
	for i := range want {
		ok := true
		ab, ba := &rRename{}, &rRename{}
		for j := range want[i] {
			ok = bAnd(ok, vVariantV(rows[i][j], want[i][j], ab, ba))
		}
		verify(ok, what+": an answer is not the tuple of the relation at this position")
	}
}

func c16Elem(name string) Term { return vK(name, 2) }

// c16List builds a list of n symbolic atoms.
func c16List(prefix string, n int) []Term {
	out := make([]Term, n)
	for i := range out {
		out[i] = c16Elem(prefix + string(rune('0'+i)))
	}
	return out
}

var c16Atoms = []string{"", "a", "ab", "abc", "aβc", "日本", "a b", "aa"}

func c16Sub(s string, b, l int) string {
	rs := []rune(s)
	return string(rs[b : b+l])
}

var c16Preds = []string{"between", "succ", "nth", "arg", "functor", "length", "char_code", "atom_length", "sub_atom", "atom_concat",
	"atom_chars", "append", "member", "select", "univ"}

// VH_C16: inst selects the predicate; modes and sizes by case split; numbers and elements symbolic.
func VH_C16(vm *VM, inst int) {
	switch c16Preds[inst] {
	case "between":
		c16Between(vm)
	case "succ":
		c16Succ(vm)
	case "nth":
		c16Nth(vm)
	case "arg":
		c16Arg(vm)
	case "functor":
		c16Functor(vm)
	case "length":
		c16Length(vm)
	case "char_code":
		c16CharCode(vm)
	case "atom_length":
		c16AtomLength(vm)
	case "sub_atom":
		c16SubAtom(vm)
	case "atom_concat":
		c16AtomConcat(vm)
	case "atom_chars":
		c16AtomChars(vm)
	case "append":
		c16Append(vm)
	case "member":
		c16Member(vm)
	case "select":
		c16Select(vm)
	case "univ":
		c16Univ(vm)
	}
	reach("c16/"+c16Preds[inst], true)
}

func c16Between(vm *VM) {
	l, h := nondetInt64("L"), nondetInt64("H")
	// window: -1 <= H - L <= 3 (no overflow in the statement: wide arithmetic); L, H over the full range,
	// so the windows next to min_integer / max_integer are included
	d := wSub(wI(h), wI(l))
	assume(bAnd(wLe(wI(-1), d), wLe(d, wI(3))))
	vs, ts := c16Vars(1)
	switch choice("mode", 2) {
	case 0: // X unbound: L, L+1, ..., H in order
		rows, st, _ := c16Ask(vm, NewAtom("between").Apply(Integer(l), Integer(h), ts[0]), vs, 8)
		n := 0
		for i := int64(0); i < 4; i++ {
			if decide(wLe(wI(i), d)) {
				n++
			}
		}
		verify(st != "error", "between(+,+,-): error")
		verify(len(rows) == n, "between(+,+,-): number of answers is not H-L+1")
		for i := range rows {
			x, ok := rows[i][0].(Integer)
			verify(ok, "between: answer is not an integer")
			verify(wEq(wI(int64(x)), wAdd(wI(l), wI(int64(i)))), "between(+,+,-): i-th answer is not L+i")
		}
	case 1: // X bound
		x := nondetInt64("X")
		rows, st, _ := c16Ask(vm, NewAtom("between").Apply(Integer(l), Integer(h), Integer(x)), nil, 4)
		verify(st != "error", "between(+,+,+): error")
		in := decide(bAnd(x >= l, x <= h))
		if in {
			verify(len(rows) == 1, "between(+,+,+): a member of the range is not answered exactly once")
		} else {
			verify(len(rows) == 0, "between(+,+,+): a non-member is answered")
		}
	}
}

func c16Succ(vm *VM) {
	x := nondetInt64("X")
	vs, ts := c16Vars(1)
	switch choice("mode", 3) {
	case 0: // succ(+X, -Y)
		assume(bAnd(x >= 0, x < 9223372036854775807))
		rows, st, _ := c16Ask(vm, NewAtom("succ").Apply(Integer(x), ts[0]), vs, 4)
		c16Expect("succ(+,-)", rows, st, [][]Term{{Integer(x + 1)}})
	case 1: // succ(-X, +Y)
		assume(x >= 0)
		rows, st, _ := c16Ask(vm, NewAtom("succ").Apply(ts[0], Integer(x)), vs, 4)
		if decide(x == 0) {
			c16Expect("succ(-,0)", rows, st, nil)
		} else {
			c16Expect("succ(-,+)", rows, st, [][]Term{{Integer(x - 1)}})
		}
	case 2: // succ(+X, +Y)
		y := nondetInt64("Y")
		assume(bAnd(bAnd(x >= 0, x < 9223372036854775807), y >= 0))
		rows, st, _ := c16Ask(vm, NewAtom("succ").Apply(Integer(x), Integer(y)), nil, 4)
		verify(st != "error", "succ(+,+): error")
		verify((len(rows) == 1) == decide(y == x+1), "succ(+,+): holds iff Y = X+1")
		verify(len(rows) <= 1, "succ(+,+): more than one answer")
	}
}

func c16Nth(vm *VM) {
	base := choice("base", 2) // nth0 / nth1
	name := NewAtom([]string{"nth0", "nth1"}[base])
	n := choice("len", 4)
	elems := c16List("e", n)
	l := List(elems...)
	switch choice("mode", 3) {
	case 0: // N bound (symbolic), E unbound
		idx := nondetInt64("N")
		assume(bAnd(idx >= -2, idx <= 5))
		vs, ts := c16Vars(1)
		rows, st, _ := c16Ask(vm, name.Apply(Integer(idx), l, ts[0]), vs, 8)
		var want [][]Term
		for i := 0; i < n; i++ {
			if decide(idx == int64(i+base)) {
				want = append(want, []Term{elems[i]})
			}
		}
		c16Expect("nth(+,+,-)", rows, st, want)
	case 1: // N unbound, E unbound: all positions in order
		vs, ts := c16Vars(2)
		rows, st, _ := c16Ask(vm, name.Apply(ts[0], l, ts[1]), vs, 8)
		var want [][]Term
		for i := 0; i < n; i++ {
			want = append(want, []Term{Integer(i + base), elems[i]})
		}
		c16Expect("nth(-,+,-)", rows, st, want)
	case 2: // N unbound, E bound (symbolic): the positions holding E
		e := c16Elem("E")
		vs, ts := c16Vars(1)
		rows, st, _ := c16Ask(vm, name.Apply(ts[0], l, e), vs, 8)
		var want [][]Term
		for i := 0; i < n; i++ {
			if decide(elems[i] == e) {
				want = append(want, []Term{Integer(i + base)})
			}
		}
		c16Expect("nth(-,+,+)", rows, st, want)
	}
}

func c16Arg(vm *VM) {
	n := 1 + choice("arity", 3)
	elems := c16List("e", n)
	t := NewAtom("f").Apply(elems...)
	// mode arg(+N, +Term, ?Arg) (ISO 8.5.2: an unbound N is an instantiation error, i.e. outside the modes)
	idx := nondetInt64("N")
	assume(bAnd(idx >= 0, idx <= 5))
	switch choice("mode", 2) {
	case 0:
		vs, ts := c16Vars(1)
		rows, st, _ := c16Ask(vm, NewAtom("arg").Apply(Integer(idx), t, ts[0]), vs, 8)
		var want [][]Term
		for i := 0; i < n; i++ {
			if decide(idx == int64(i+1)) {
				want = append(want, []Term{elems[i]})
			}
		}
		c16Expect("arg(+,+,-)", rows, st, want)
	case 1: // Arg bound (symbolic): holds iff the N-th argument is that element
		e := c16Elem("E")
		rows, st, _ := c16Ask(vm, NewAtom("arg").Apply(Integer(idx), t, e), nil, 8)
		hit := 0
		for i := 0; i < n; i++ {
			if decide(bAnd(idx == int64(i+1), elems[i] == e)) {
				hit++
			}
		}
		verify(st != "error" && len(rows) == hit, "arg(+,+,+): holds iff the N-th argument is Arg")
	}
}

func c16Functor(vm *VM) {
	switch choice("mode", 3) {
	case 0: // functor(+T, -N, -A)
		n := choice("arity", 4)
		var t Term = NewAtom("foo")
		if n > 0 {
			t = NewAtom("foo").Apply(c16List("e", n)...)
		}
		vs, ts := c16Vars(2)
		rows, st, _ := c16Ask(vm, NewAtom("functor").Apply(t, ts[0], ts[1]), vs, 4)
		c16Expect("functor(+,-,-)", rows, st, [][]Term{{NewAtom("foo"), Integer(n)}})
	case 1: // functor(-T, +N, +A) with symbolic small arity
		a := nondetInt64("A")
		assume(bAnd(a >= 0, a <= 3))
		vs, ts := c16Vars(1)
		rows, st, _ := c16Ask(vm, NewAtom("functor").Apply(ts[0], NewAtom("foo"), Integer(a)), vs, 4)
		verify(st != "error" && len(rows) == 1, "functor(-,+,+): not exactly one answer")
		if len(rows) == 1 {
			if decide(a == 0) {
				verify(rows[0][0] == Term(NewAtom("foo")), "functor(-,foo,0): not the atom")
			} else {
				c, ok := rows[0][0].(Compound)
				verify(ok && c.Functor() == NewAtom("foo"), "functor(-,+,+): wrong functor")
				if ok {
					verify(decide(int64(c.Arity()) == a), "functor(-,+,+): wrong arity")
					seen := map[Variable]bool{}
					for i := 0; i < c.Arity(); i++ {
						v, isVar := c.Arg(i).(Variable)
						verify(isVar && !seen[v], "functor(-,+,+): arguments are not distinct fresh variables")
						seen[v] = true
					}
				}
			}
		}
	case 2: // numbers: functor(+Number, -N, -A)
		x := nondetInt64("X")
		vs, ts := c16Vars(2)
		rows, st, _ := c16Ask(vm, NewAtom("functor").Apply(Integer(x), ts[0], ts[1]), vs, 4)
		c16Expect("functor(number)", rows, st, [][]Term{{Integer(x), Integer(0)}})
	}
}

func c16Length(vm *VM) {
	switch choice("mode", 4) {
	case 0: // proper list, N unbound
		n := choice("len", 4)
		vs, ts := c16Vars(1)
		rows, st, _ := c16Ask(vm, NewAtom("length").Apply(List(c16List("e", n)...), ts[0]), vs, 4)
		c16Expect("length(+,-)", rows, st, [][]Term{{Integer(n)}})
	case 1: // proper list, N bound symbolic
		n := choice("len", 4)
		k := nondetInt64("N")
		assume(bAnd(k >= 0, k <= 6))
		rows, st, _ := c16Ask(vm, NewAtom("length").Apply(List(c16List("e", n)...), Integer(k)), nil, 4)
		verify(st != "error", "length(+,+): error")
		verify((len(rows) == 1) == decide(k == int64(n)), "length(+,+): holds iff N is the length")
	case 2: // partial list, N unbound: lengths p, p+1, p+2 ... (first 3)
		p := choice("prefix", 3)
		vs, ts := c16Vars(2)
		l := PartialList(ts[1], c16List("e", p)...)
		rows, st, _ := c16Ask(vm, NewAtom("length").Apply(l, ts[0]), vs[:1], 3)
		verify(st == "stopped" && len(rows) == 3, "length(partial,-): fewer than 3 answers")
		for i := range rows {
			verify(rows[i][0] == Term(Integer(p+i)), "length(partial,-): i-th answer is not prefix+i")
		}
	case 3: // L unbound, N bound symbolic
		k := nondetInt64("N")
		assume(bAnd(k >= 0, k <= 3))
		vs, ts := c16Vars(1)
		rows, st, _ := c16Ask(vm, NewAtom("length").Apply(ts[0], Integer(k)), vs, 4)
		verify(st != "error" && len(rows) == 1, "length(-,+): not exactly one answer")
		if len(rows) == 1 {
			it := ListIterator{List: rows[0][0]}
			cnt := 0
			seen := map[Variable]bool{}
			for it.Next() {
				v, isVar := it.Current().(Variable)
				verify(isVar && !seen[v], "length(-,+): elements are not distinct fresh variables")
				seen[v] = true
				cnt++
			}
			verify(it.Err() == nil, "length(-,+): not a proper list")
			verify(decide(int64(cnt) == k), "length(-,+): wrong length")
		}
	}
}

func c16CharCode(vm *VM) {
	switch choice("mode", 3) {
	case 0: // char_code(+Char, -Code), every code point
		r := nondetInt32("r")
		assume(bAnd(r >= 0, r <= 0x10FFFF))
		assume(bOr(r < 0xD800, r > 0xDFFF))
		vs, ts := c16Vars(1)
		rows, st, _ := c16Ask(vm, NewAtom("char_code").Apply(Atom(r), ts[0]), vs, 4)
		c16Expect("char_code(+,-)", rows, st, [][]Term{{Integer(r)}})
	case 1: // char_code(-Char, +Code), Code over all int64
		c := nondetInt64("code")
		vs, ts := c16Vars(1)
		rows, st, kind := c16Ask(vm, NewAtom("char_code").Apply(ts[0], Integer(c)), vs, 4)
		valid := decide(bAnd(bAnd(c >= 0, c <= 0x10FFFF), bOr(c < 0xD800, c > 0xDFFF)))
		if valid {
			verify(st != "error" && len(rows) == 1, "char_code(-,+): a valid code is not answered exactly once")
			if len(rows) == 1 {
				a, ok := rows[0][0].(Atom)
				verify(ok, "char_code(-,+): answer is not an atom")
				verify(uint64(a) == uint64(c), "char_code(-,+): answer is not the character with that code")
			}
		} else {
			verify(len(rows) == 0, "char_code(-,+): an integer that is no character code is answered with a character")
			verify(st == "error" && kind == "representation_error", "char_code(-,+): an invalid code must be a representation_error")
		}
	case 2: // both bound
		r := nondetInt32("r")
		assume(bAnd(r >= 0, r < 0x80))
		c := nondetInt64("code")
		rows, st, _ := c16Ask(vm, NewAtom("char_code").Apply(Atom(r), Integer(c)), nil, 4)
		verify(st != "error", "char_code(+,+): error")
		verify((len(rows) == 1) == decide(c == int64(r)), "char_code(+,+): holds iff Code is the char's code")
	}
}

func c16AtomLength(vm *VM) {
	s := c16Atoms[choice("atom", len(c16Atoms))]
	n := utf8.RuneCountInString(s)
	switch choice("mode", 2) {
	case 0:
		vs, ts := c16Vars(1)
		rows, st, _ := c16Ask(vm, NewAtom("atom_length").Apply(NewAtom(s), ts[0]), vs, 4)
		c16Expect("atom_length(+,-)", rows, st, [][]Term{{Integer(n)}})
	case 1:
		k := nondetInt64("L")
		assume(bAnd(k >= 0, k <= 8))
		rows, st, _ := c16Ask(vm, NewAtom("atom_length").Apply(NewAtom(s), Integer(k)), nil, 4)
		verify(st != "error", "atom_length(+,+): error")
		verify((len(rows) == 1) == decide(k == int64(n)), "atom_length(+,+): holds iff L is the number of characters")
	}
}

func c16SubAtom(vm *VM) {
	s := c16Atoms[choice("atom", len(c16Atoms))]
	n := utf8.RuneCountInString(s)
	a := NewAtom(s)
	mode := choice("mode", 5)
	var bT, lT, aT, sT Term
	vs, ts := c16Vars(4)
	bT, lT, aT, sT = ts[0], ts[1], ts[2], ts[3]
	var bv, lv, av int64
	var sub string
	switch mode {
	case 1:
		bv = nondetInt64("B")
		assume(bAnd(bv >= 0, bv <= 6))
		bT = Integer(bv)
	case 2:
		lv = nondetInt64("L")
		assume(bAnd(lv >= 0, lv <= 6))
		lT = Integer(lv)
	case 3:
		av = nondetInt64("A")
		assume(bAnd(av >= 0, av <= 6))
		aT = Integer(av)
	case 4:
		subs := []string{"", "a", "b", "β", "ab", "日", "c", "a b"}
		sub = subs[choice("sub", len(subs))]
		sT = NewAtom(sub)
	}
	rows, st, _ := c16Ask(vm, NewAtom("sub_atom").Apply(a, bT, lT, aT, sT), vs, 64)
	verify(st != "error", "sub_atom: error inside its mode")
	// brute force relation, in the order B ascending then L ascending
	var want [][4]Term
	for b := 0; b <= n; b++ {
		for l := 0; b+l <= n; l++ {
			af := n - b - l
			ss := c16Sub(s, b, l)
			switch mode {
			case 1:
				if !decide(bv == int64(b)) {
					continue
				}
			case 2:
				if !decide(lv == int64(l)) {
					continue
				}
			case 3:
				if !decide(av == int64(af)) {
					continue
				}
			case 4:
				if ss != sub {
					continue
				}
			}
			want = append(want, [4]Term{Integer(b), Integer(l), Integer(af), NewAtom(ss)})
		}
	}
	verify(len(rows) == len(want), "sub_atom: number of answers differs from the relation (characters, not bytes)")
	// as a set without duplicates
	used := make([]bool, len(want))
	for _, r := range rows {
		found := false
		for j, w := range want {
			if used[j] {
				continue
			}
			ok := true
			for c := 0; c < 4; c++ {
				if _, isVar := r[c].(Variable); isVar {
					continue // this argument was bound in the call: its variable of the row stays unbound
				}
				if r[c] != w[c] {
					ok = false
				}
			}
			if ok {
				used[j], found = true, true
				break
			}
		}
		verify(found, "sub_atom: an answer is not a tuple of the relation, or is delivered twice")
	}
}

func c16AtomConcat(vm *VM) {
	s := c16Atoms[choice("atom", len(c16Atoms))]
	rs := []rune(s)
	switch choice("mode", 3) {
	case 0: // atom_concat(-X, -Y, +Z): every split, in order
		vs, ts := c16Vars(2)
		rows, st, _ := c16Ask(vm, NewAtom("atom_concat").Apply(ts[0], ts[1], NewAtom(s)), vs, 16)
		var want [][]Term
		for i := 0; i <= len(rs); i++ {
			want = append(want, []Term{NewAtom(string(rs[:i])), NewAtom(string(rs[i:]))})
		}
		c16Expect("atom_concat(-,-,+)", rows, st, want)
	case 1: // atom_concat(+X, +Y, -Z)
		t := c16Atoms[choice("atom2", len(c16Atoms))]
		vs, ts := c16Vars(1)
		rows, st, _ := c16Ask(vm, NewAtom("atom_concat").Apply(NewAtom(s), NewAtom(t), ts[0]), vs, 4)
		c16Expect("atom_concat(+,+,-)", rows, st, [][]Term{{NewAtom(s + t)}})
	case 2: // atom_concat(+X, -Y, +Z): prefix
		p := c16Atoms[choice("atom2", len(c16Atoms))]
		vs, ts := c16Vars(1)
		rows, st, _ := c16Ask(vm, NewAtom("atom_concat").Apply(NewAtom(p), ts[0], NewAtom(s)), vs, 4)
		var want [][]Term
		if strings.HasPrefix(s, p) {
			want = [][]Term{{NewAtom(s[len(p):])}}
		}
		c16Expect("atom_concat(+,-,+)", rows, st, want)
	}
}

func c16AtomChars(vm *VM) {
	s := c16Atoms[choice("atom", len(c16Atoms))]
	rs := []rune(s)
	chars := make([]Term, len(rs))
	codes := make([]Term, len(rs))
	for i, r := range rs {
		chars[i] = Atom(r)
		codes[i] = Integer(r)
	}
	vs, ts := c16Vars(1)
	switch choice("mode", 4) {
	case 0:
		rows, st, _ := c16Ask(vm, NewAtom("atom_chars").Apply(NewAtom(s), ts[0]), vs, 4)
		c16Expect("atom_chars(+,-)", rows, st, [][]Term{{rList(chars)}})
	case 1:
		rows, st, _ := c16Ask(vm, NewAtom("atom_chars").Apply(ts[0], List(chars...)), vs, 4)
		c16Expect("atom_chars(-,+)", rows, st, [][]Term{{NewAtom(s)}})
	case 2:
		rows, st, _ := c16Ask(vm, NewAtom("atom_codes").Apply(NewAtom(s), ts[0]), vs, 4)
		c16Expect("atom_codes(+,-)", rows, st, [][]Term{{rList(codes)}})
	case 3:
		rows, st, _ := c16Ask(vm, NewAtom("atom_codes").Apply(ts[0], List(codes...)), vs, 4)
		c16Expect("atom_codes(-,+)", rows, st, [][]Term{{NewAtom(s)}})
	}
}

func c16Append(vm *VM) {
	switch choice("mode", 3) {
	case 0: // append(-X, -Y, +Z): all splits in order
		n := choice("len", 4)
		z := c16List("z", n)
		vs, ts := c16Vars(2)
		rows, st, _ := c16Ask(vm, NewAtom("append").Apply(ts[0], ts[1], List(z...)), vs, 8)
		var want [][]Term
		for i := 0; i <= n; i++ {
			want = append(want, []Term{rList(z[:i]), rList(z[i:])})
		}
		c16Expect("append(-,-,+)", rows, st, want)
	case 1: // append(+X, +Y, -Z)
		nx, ny := choice("lenx", 3), choice("leny", 3)
		x, y := c16List("x", nx), c16List("y", ny)
		vs, ts := c16Vars(1)
		rows, st, _ := c16Ask(vm, NewAtom("append").Apply(List(x...), List(y...), ts[0]), vs, 4)
		c16Expect("append(+,+,-)", rows, st, [][]Term{{rList(append(append([]Term{}, x...), y...))}})
	case 2: // append(+X, -Y, +Z): holds iff X is a prefix (elements symbolic)
		nx, nz := choice("lenx", 3), choice("lenz", 4)
		x, z := c16List("x", nx), c16List("z", nz)
		vs, ts := c16Vars(1)
		rows, st, _ := c16Ask(vm, NewAtom("append").Apply(List(x...), ts[0], List(z...)), vs, 4)
		isPrefix := nx <= nz
		if isPrefix {
			for i := 0; i < nx; i++ {
				if !decide(x[i] == z[i]) {
					isPrefix = false
				}
			}
		}
		var want [][]Term
		if isPrefix {
			want = [][]Term{{rList(z[nx:])}}
		}
		c16Expect("append(+,-,+)", rows, st, want)
	}
}

func c16Member(vm *VM) {
	n := choice("len", 4)
	l := c16List("e", n)
	switch choice("mode", 2) {
	case 0: // member(-X, +L): every position in order
		vs, ts := c16Vars(1)
		rows, st, _ := c16Ask(vm, NewAtom("member").Apply(ts[0], List(l...)), vs, 8)
		var want [][]Term
		for _, e := range l {
			want = append(want, []Term{e})
		}
		c16Expect("member(-,+)", rows, st, want)
	case 1: // member(+X, +L): once per position holding X
		x := c16Elem("X")
		rows, st, _ := c16Ask(vm, NewAtom("member").Apply(x, List(l...)), nil, 8)
		cnt := 0
		for _, e := range l {
			if decide(e == x) {
				cnt++
			}
		}
		verify(st != "error" && len(rows) == cnt, "member(+,+): not one answer per matching position")
	}
}

func c16Select(vm *VM) {
	n := choice("len", 4)
	l := c16List("e", n)
	switch choice("mode", 2) {
	case 0: // select(-X, +L, -R)
		vs, ts := c16Vars(2)
		rows, st, _ := c16Ask(vm, NewAtom("select").Apply(ts[0], List(l...), ts[1]), vs, 8)
		var want [][]Term
		for i := range l {
			rest := append(append([]Term{}, l[:i]...), l[i+1:]...)
			want = append(want, []Term{l[i], rList(rest)})
		}
		c16Expect("select(-,+,-)", rows, st, want)
	case 1: // select(+X, +L, -R)
		x := c16Elem("X")
		vs, ts := c16Vars(1)
		rows, st, _ := c16Ask(vm, NewAtom("select").Apply(x, List(l...), ts[0]), vs, 8)
		var want [][]Term
		for i := range l {
			if decide(l[i] == x) {
				rest := append(append([]Term{}, l[:i]...), l[i+1:]...)
				want = append(want, []Term{rList(rest)})
			}
		}
		c16Expect("select(+,+,-)", rows, st, want)
	}
}

func c16Univ(vm *VM) {
	n := choice("arity", 4)
	args := c16List("e", n)
	var t Term = NewAtom("foo")
	if n > 0 {
		t = NewAtom("foo").Apply(args...)
	}
	vs, ts := c16Vars(1)
	switch choice("mode", 3) {
	case 0:
		rows, st, _ := c16Ask(vm, NewAtom("=..").Apply(t, ts[0]), vs, 4)
		c16Expect("=..(+,-)", rows, st, [][]Term{{rList(append([]Term{NewAtom("foo")}, args...))}})
	case 1:
		rows, st, _ := c16Ask(vm, NewAtom("=..").Apply(ts[0], List(append([]Term{NewAtom("foo")}, args...)...)), vs, 4)
		c16Expect("=..(-,+)", rows, st, [][]Term{{t}})
	case 2: // number
		x := nondetInt64("X")
		rows, st, _ := c16Ask(vm, NewAtom("=..").Apply(Integer(x), ts[0]), vs, 4)
		c16Expect("=..(number)", rows, st, [][]Term{{rList([]Term{Integer(x)})}})
	}
}

// ---- aliased arguments: instantiating by sharing a variable selects the matching subset ----

var c16Alias = []struct{ general, aliased string }{
	{"nth0(A, [2, 1, 0], B)", "nth0(A, [2, 1, 0], A)"},
	{"nth0(A, [1, 2, 0], B)", "nth0(A, [1, 2, 0], A)"},
	{"nth1(A, [1, 3, 3], B)", "nth1(A, [1, 3, 3], A)"},
	{"nth0(A, [f(1), f(1), f(0)], f(B))", "nth0(A, [f(1), f(1), f(0)], f(A))"},
	{"nth1(A, [g(2, 1), g(2, 2), g(3, 3)], g(B, B2)), B == B2", "nth1(A, [g(2, 1), g(2, 2), g(3, 3)], g(B, B)), true"},
	{"between(1, 3, A), arg(A, f(3, 2, 1), B)", "between(1, 3, A), arg(A, f(3, 2, 1), A)"},
	{"between(1, 3, A), arg(A, f(1, 1, 3), B)", "between(1, 3, A), arg(A, f(1, 1, 3), A)"},
	{"append(A, B, [x, y, x, y])", "append(A, A, [x, y, x, y])"},
	{"append(A, B, [x, y, x])", "append(A, A, [x, y, x])"},
	{"atom_concat(A, B, abab)", "atom_concat(A, A, abab)"},
	{"atom_concat(A, B, aba)", "atom_concat(A, A, aba)"},
	{"sub_atom(abc, A, B, _, _)", "sub_atom(abc, A, A, _, _)"},
	{"sub_atom(abc, A, _, B, _)", "sub_atom(abc, A, _, A, _)"},
	{"sub_atom(abab, _, _, _, S), atom_length(S, 2), A = S, sub_atom(abab, _, _, _, B), atom_length(B, 2)", "sub_atom(abab, _, _, _, A), atom_length(A, 2), sub_atom(abab, _, _, _, A), true"},
	{"member(A-B, [1-1, 1-2, 2-2, 3-1])", "member(A-A, [1-1, 1-2, 2-2, 3-1])"},
	{"select(A, [1, 2, 1], [B|_])", "select(A, [1, 2, 1], [A|_])"},
	{"between(1, 3, A), between(2, 4, B)", "between(1, 3, A), between(2, 4, A)"},
	{"length(L, A), A >= 1, !, L = [B|_], B = 1", "length(L, A), A >= 1, !, L = [A|_], true"},
	{"[X, Y] = [A, B], member(X, [p, q]), member(Y, [q, p])", "[X, Y] = [A, A], member(X, [p, q]), member(Y, [q, p])"},
	{"atom_chars(aba, [A, _, B])", "atom_chars(aba, [A, _, A])"},
	{"atom_chars(abc, [A, _, B])", "atom_chars(abc, [A, _, A])"},
	{"atom_codes(aba, [A, _, B])", "atom_codes(aba, [A, _, A])"},
	{"f(1, 2, 1) =.. [_, A, _, B]", "f(1, 2, 1) =.. [_, A, _, A]"},
	{"functor(T, foo, 2), T = foo(A, B), A = 1, B = 1", "functor(T, foo, 2), T = foo(A, A), A = 1, true"},
	{"copy_term(g(X, Y), g(A, B)), A = 1, B = 1", "copy_term(g(X, X), g(A, B)), A = 1, B == 1"},
	{"sort([c, a, b, a], [A, _, _]), sort([a, c], [B|_])", "sort([c, a, b, a], [A, _, _]), sort([a, c], [A|_])"},
}

// VH_C16_alias: the answers of the aliased call are those answers of the general call in which the two variables
// are identical, in the same order.
func VH_C16_alias(vm *VM, inst int) {
	c := c16Alias[inst]
	note("case", c.general+"  vs  "+c.aliased)
	run := func(text string, names ...string) [][]Term {
		q, pv, err := vParseQuery(vm, text+".")
		verify(err == nil, "harness: does not parse: "+text)
		vars := make([]Variable, len(names))
		for i, n := range names {
			for _, v := range pv {
				if v.Name.String() == n {
					vars[i] = v.Variable
				}
			}
		}
		r := vRunImpl(vm, q, vars, 12, nil)
		verify(r.status != "error", "a call within the modes raised an error: "+text)
		return r.answers
	}
	gen := run(c.general, "A", "B")
	var want []Term
	for _, row := range gen {
		if decide(vIdenticalV(row[0], row[1])) {
			want = append(want, row[0])
		}
	}
	got := run(c.aliased, "A")
	verify(len(got) == len(want), "sharing a variable between two arguments does not select the matching answers of the general call (different number of answers)")
	for i := range got {
		verify(vIdenticalV(got[i][0], want[i]), "sharing a variable between two arguments gives an answer the general call does not have at that position")
	}
	reach("c16/alias", true)
}

// ---- the list library on partial lists, against the defining clauses ----

const c16RefLib = "rmember(X, [X|_]). rmember(X, [_|Xs]) :- rmember(X, Xs). " +
	"rselect(E, [E|Xs], Xs). rselect(E, [X|Xs], [X|Ys]) :- rselect(E, Xs, Ys). " +
	"rappend([], L, L). rappend([H|T], L, [H|R]) :- rappend(T, L, R)."

// each goal uses member/select/append; the reference goal is the same text with r-prefixed names
var c16Partial = []string{
	"member(X, [a|T])", "member(b, [a|T])", "member(X, L)", "member(X, [a, b|T])", "member(X, [a, b, c])", "member(c, [a, b, c])", "member(X, [])",
	"member(f(X), [f(1), g(2), f(3)|T])", "member(X, [Y|T]), X = k", "member(a, [X, Y])", "member(K-V, D), D = [a-1|_]",
	"select(X, [a|T], R)", "select(a, L, [b])", "select(X, [a, b, c], R)", "select(b, [a, b, c, b], R)", "select(X, L, R)", "select(a, [a|T], T)",
	"append(X, [c], L)", "append([a|T], [c], L)", "append(X, Y, [a|T])", "append(X, Y, [a, b])", "append([a], [b], L)", "append(X, [b], [a, b])", "append(X, X, L)",
	"append(L1, L2, L3), L1 = [a], L2 = [b], !", "member(X, [a, b]), member(Y, [X|T]), Y == a, !",
}

func c16RefName(g string) string {
	g = strings.ReplaceAll(g, "member(", "rmember(")
	g = strings.ReplaceAll(g, "select(", "rselect(")
	g = strings.ReplaceAll(g, "append(", "rappend(")
	return g
}

// VH_C16_partial: the first 4 answers of the library predicate and of its defining clauses are the same, in order,
// up to renaming (all query variables compared, so that what an open tail is bound to counts).
func VH_C16_partial(vm *VM, inst int) {
	g := c16Partial[inst]
	note("goal", g)
	rules, err := vParseAll(vm, c16RefLib)
	verify(err == nil, "harness: reference library does not parse")
	for _, r := range rules {
		ok, err := Assertz(vm, r, Success, nil).Force(context.Background())
		verify(ok && err == nil, "harness: assertz of a reference clause failed")
	}
	run := func(text string) vImplRun {
		q, pv, err := vParseQuery(vm, text+".")
		verify(err == nil, "harness: goal does not parse: "+text)
		vars := make([]Variable, len(pv))
		for i, v := range pv {
			vars[i] = v.Variable
		}
		return vRunImpl(vm, q, vars, 4, nil)
	}
	lib, ref := run(g), run(c16RefName(g))
	verify(lib.status == ref.status && len(lib.answers) == len(ref.answers), "a list library predicate and its defining clauses differ in the number of answers or in how they end")
	for i := range lib.answers {
		verify(decide(vVariantV(NewAtom("r").Apply(lib.answers[i]...), NewAtom("r").Apply(ref.answers[i]...), &rRename{}, &rRename{})), "a list library predicate gives a different answer than its defining clauses")
	}
	reach("c16/partial", true)
}

//go:build verif

package engine

// C10 — a stored clause is the clause that was given, and it executes as that clause.

import (
	"context"
	"strings"
)

// c10Case: setup queries (run on both sides, may bind variables before asserting), then for every predicate the
// stored form is compared: clause/2 listing, decompiled bytecode, and the answers of the probe queries.
type c10Case struct {
	name    string
	setup   []string // goals run in order (each a separate query)
	probes  []string // queries whose answers are compared afterwards
	preds   []string // name/arity to inspect, e.g. "foo/2"
	kf      string   // known-finding id covering the clause/2 listing and stored-clause count of this case, if any
	kfProbes bool    // the known finding also changes the probes' answers (retract of half a clause)
}

var c10Cases = []c10Case{
	{name: "fact-atoms", setup: []string{"assertz(foo(k0, k1))."}, probes: []string{"foo(X, Y)."}, preds: []string{"foo/2"}},
	{name: "fact-numbers", setup: []string{"assertz(foo(1, 2.5, n0))."}, probes: []string{"foo(X, Y, Z)."}, preds: []string{"foo/3"}},
	{name: "fact-nested", setup: []string{"assertz(foo(f(k0, g(k1)), h(X, X, Y)))."}, probes: []string{"foo(A, B).", "foo(f(k2, _), h(1, Q, 2))."}, preds: []string{"foo/2"}},
	{name: "fact-lists", setup: []string{"assertz(foo([k0, k1, k2], [k0|T], []))."}, probes: []string{"foo(A, B, C).", "foo([X|R], [Y, Z], W)."}, preds: []string{"foo/3"}},
	{name: "fact-partial-in-list", setup: []string{"assertz(foo([[k0|T]|U], T, U))."}, probes: []string{"foo(A, B, C).", "foo([[X, Y]], B, C)."}, preds: []string{"foo/3"}},
	{name: "fact-string", setup: []string{"assertz(foo(\"ab\", X, \"\"))."}, probes: []string{"foo(A, B, C).", "foo([H|T], 1, [])."}, preds: []string{"foo/3"}},
	{name: "fact-repeated-vars", setup: []string{"assertz(foo(X, Y, X, f(Y, Z, Z)))."}, probes: []string{"foo(A, B, C, D).", "foo(k0, k1, C, f(E, 1, G))."}, preds: []string{"foo/4"}},
	{name: "fact-atom-arity0", setup: []string{"assertz(foo)."}, probes: []string{"foo."}, preds: []string{"foo/0"}},
	{name: "rule-simple", setup: []string{"assertz(bar(k0)).", "assertz(bar(k1)).", "assertz((foo(X) :- bar(X)))."}, probes: []string{"foo(X)."}, preds: []string{"foo/1"}},
	{name: "rule-body-args", setup: []string{"assertz(bar(k0, f(k1))).", "assertz((foo(X, Y) :- bar(X, f(Y)), X \\== Y))."}, probes: []string{"foo(X, Y)."}, preds: []string{"foo/2"}},
	{name: "rule-body-lists", setup: []string{"assertz((foo(L, R) :- L = [H|T], R = [T, H, [k0|T]]))."}, probes: []string{"foo([k1, k2], R).", "foo(L, R)."}, preds: []string{"foo/2"}},
	{name: "rule-body-partial", setup: []string{"assertz((foo(A, B, T) :- A = [k0, k1|T], B = [x|A]))."}, probes: []string{"foo(A, B, [z]).", "foo(A, B, T)."}, preds: []string{"foo/3"}},
	{name: "rule-singleton-and-shared", setup: []string{"assertz(bar(_, k0)).", "assertz((foo(X, Y) :- bar(_, X), bar(Z, Y), Z = W))."}, probes: []string{"foo(X, Y)."}, preds: []string{"foo/2"}},
	{name: "rule-var-goal", setup: []string{"assertz(bar(k0)).", "assertz((foo(G, X) :- G, bar(X)))."}, probes: []string{"foo(true, X).", "foo(bar(k1), X)."}, preds: []string{"foo/2"}},
	{name: "rule-cut", setup: []string{"assertz(bar(k0)).", "assertz(bar(k1)).", "assertz((foo(X) :- bar(X), !))."}, probes: []string{"foo(X)."}, preds: []string{"foo/1"}},
	{name: "rule-deep-struct-body", setup: []string{"assertz((foo(X, R) :- R = f(g(X, [X]), h(k0, g(k1, X)))))."}, probes: []string{"foo(k2, R)."}, preds: []string{"foo/2"}},
	{name: "prebound-fact", setup: []string{"X = f(k0), assertz(foo(X, Y, X))."}, probes: []string{"foo(A, B, C)."}, preds: []string{"foo/3"}},
	{name: "prebound-rule-head", setup: []string{"assertz(bar(k0)).", "X = k1, assertz((foo(X, Y) :- bar(Y)))."}, probes: []string{"foo(A, B)."}, preds: []string{"foo/2"}},
	{name: "prebound-rule-body", setup: []string{"assertz(bar(k0)).", "assertz(bar(k1)).", "X = k0, assertz((foo :- bar(X)))."}, probes: []string{"foo."}, preds: []string{"foo/0"}},
	{name: "prebound-rule-body-struct", setup: []string{"assertz(bar(f(k0))).", "X = f(Y), Y = k0, assertz((foo(Z) :- bar(X), Z = X))."}, probes: []string{"foo(Z)."}, preds: []string{"foo/1"}},
	{name: "prebound-goal", setup: []string{"assertz(bar(k0)).", "G = bar(X), assertz((foo(X) :- G))."}, probes: []string{"foo(X)."}, preds: []string{"foo/1"}},
	{name: "prebound-whole-clause", setup: []string{"assertz(bar(k0)).", "C = (foo(X) :- bar(X)), assertz(C)."}, probes: []string{"foo(X)."}, preds: []string{"foo/1"}},
	{name: "renamed-apart-fact", setup: []string{"assertz(foo(X)), X = k0."}, probes: []string{"foo(A)."}, preds: []string{"foo/1"}},
	{name: "renamed-apart-retract", setup: []string{"assertz(foo(X, Y)).", "assertz(foo(k2, k2))."}, probes: []string{"retract(foo(k0, Z)), Z == k1.", "foo(A, B)."}, preds: []string{"foo/2"}},
	{name: "snapshot-then-bind-clause", setup: []string{"assertz(foo(k0, X)), X = k1, clause(foo(k0, Y), true), var(Y), assertz(done)."}, probes: []string{"done.", "foo(A, B)."}, preds: []string{"foo/2", "done/0"}},
	{name: "snapshot-then-bind-call", setup: []string{"assertz(foo(X)), X = k1, foo(k2), assertz(done)."}, probes: []string{"done.", "foo(A)."}, preds: []string{"foo/1", "done/0"}},
	{name: "snapshot-then-bind-retract", setup: []string{"assertz(foo(k0, X)), X = k1, retract(foo(k0, k2)), assertz(done)."}, probes: []string{"done.", "foo(A, B)."}, preds: []string{"foo/2", "done/0"}},
	{name: "snapshot-rule-then-bind", setup: []string{"assertz((foo(X) :- X = Y)), Y = k1, clause(foo(A), B), assertz(seen(B))."}, probes: []string{"foo(Z)."}, preds: []string{"foo/1"}},
	{name: "renamed-apart-same-query", setup: []string{"assertz(foo(X)), retract(foo(k0)), var(X), assertz(done)."}, probes: []string{"done."}, preds: []string{"foo/1", "done/0"}},
	{name: "renamed-apart-two-asserts", setup: []string{"assertz(foo(X)), assertz(bar(X)), retract(foo(k0)), assertz(foo(done))."}, probes: []string{"bar(Y).", "foo(Z)."}, preds: []string{"foo/1", "bar/1"}},
	{name: "asserta-order", setup: []string{"assertz(foo(k0)).", "asserta(foo(k1)).", "assertz((foo(X) :- X = k2))."}, probes: []string{"foo(X)."}, preds: []string{"foo/1"}},
	{name: "clause-body-true", setup: []string{"assertz(foo(k0)).", "assertz((foo(k1) :- true))."}, probes: []string{"clause(foo(X), B)."}, preds: []string{"foo/1"}},
	{name: "retract-rule", setup: []string{"assertz((foo(X) :- bar(X), baz)).", "assertz((foo(X) :- bar(X)))."}, probes: []string{"retract((foo(A) :- bar(B))), A == B."}, preds: []string{"foo/1"}},
	{name: "disj-body", setup: []string{"assertz((foo(X) :- X = k0 ; X = k1))."}, probes: []string{"foo(X)."}, preds: []string{"foo/1"}, kf: "C10/disjunctive-body-stored-per-alternative"},
	{name: "disj-body-retract", setup: []string{"assertz((foo(X) :- X = k0 ; X = k1))."}, probes: []string{"retract((foo(_) :- _)).", "foo(X)."}, preds: []string{"foo/1"}, kf: "C10/disjunctive-body-stored-per-alternative", kfProbes: true},
	{name: "disj-body-wide-head", setup: []string{"assertz((foo(A, B, [H|T], f(A, Z), E) :- A = k0 ; B = k1, E = H ; fail))."}, probes: []string{"foo(A, B, C, D, E).", "foo(x, y, [k2], D, E)."}, preds: []string{"foo/5"}, kf: "C10/disjunctive-body-stored-per-alternative"},
	{name: "ite-body", setup: []string{"assertz((foo(X, R) :- ( X = k0 -> R = yes ; R = no )))."}, probes: []string{"foo(k1, R).", "foo(X, R)."}, preds: []string{"foo/2"}},
	{name: "conj-left-nested", setup: []string{"assertz(bar(k0)).", "assertz((foo(X, Y) :- (bar(X), bar(Y)), X == Y))."}, probes: []string{"foo(X, Y)."}, preds: []string{"foo/2"}},
}

func c10PI(s string) (Atom, int) {
	i := strings.LastIndex(s, "/")
	n := 0
	for _, c := range s[i+1:] {
		n = n*10 + int(c-'0')
	}
	return NewAtom(s[:i]), n
}

// c10Listing lists name/arity through clause/2 in a fresh environment.
func c10Listing(vm *VM, name Atom, arity int) ([]Term, error) {
	args := make([]Term, arity)
	for i := range args {
		args[i] = NewVariable()
	}
	head := name.Apply(args...)
	b := NewVariable()
	var out []Term
	_, err := Clause(vm, head, b, func(env *Env) *Promise {
		out = append(out, xIf.Apply(vPlain(head, env), vPlain(b, env)))
		return Bool(false)
	}, nil).Force(context.Background())
	return out, err
}

// c10Decompile rebuilds (Head :- Body) from a compiled clause: the compiled form must denote its source term.
func c10Decompile(c clause) (Term, bool) {
	vars := make([]Term, len(c.vars))
	for i := range vars {
		vars[i] = NewVariable()
	}
	type frame struct {
		functor Atom
		kind    int // 0 compound, 1 list, 2 partial
		want    int
		args    []Term
	}
	var stack []*frame
	var cur []Term // arguments of the current goal / head
	var headArgs []Term
	var goals []Term
	inBody := false
	push := func(t Term) bool {
		for {
			if len(stack) == 0 {
				cur = append(cur, t)
				return true
			}
			f := stack[len(stack)-1]
			f.args = append(f.args, t)
			return true
		}
	}
	for _, in := range c.bytecode {
		switch in.opcode {
		case opGetConst, opPutConst:
			push(in.operand)
		case opGetVar, opPutVar:
			i := int(in.operand.(Integer))
			if i < 0 || i >= len(vars) {
				return nil, false
			}
			push(vars[i])
		case opGetFunctor, opPutFunctor:
			pi := in.operand.(procedureIndicator)
			stack = append(stack, &frame{functor: pi.name, kind: 0, want: int(pi.arity)})
		case opGetList, opPutList:
			stack = append(stack, &frame{kind: 1, want: int(in.operand.(Integer))})
		case opGetPartial, opPutPartial:
			stack = append(stack, &frame{kind: 2, want: int(in.operand.(Integer)) + 1})
		case opPop:
			if len(stack) == 0 {
				return nil, false
			}
			f := stack[len(stack)-1]
			stack = stack[:len(stack)-1]
			if len(f.args) != f.want {
				return nil, false
			}
			var t Term
			switch f.kind {
			case 0:
				t = f.functor.Apply(f.args...)
			case 1:
				t = rList(f.args)
			case 2:
				// tail first, then the prefix
				var l Term = f.args[0]
				for i := len(f.args) - 1; i >= 1; i-- {
					l = xDot.Apply(f.args[i], l)
				}
				t = l
			}
			push(t)
		case opEnter:
			headArgs, cur, inBody = cur, nil, true
		case opCall:
			pi := in.operand.(procedureIndicator)
			if len(cur) != int(pi.arity) || len(stack) != 0 {
				return nil, false
			}
			goals = append(goals, pi.name.Apply(cur...))
			cur = nil
		case opCut:
			goals = append(goals, Term(xCut))
		case opExit:
			if !inBody {
				headArgs, cur = cur, nil
			}
		}
	}
	if len(stack) != 0 || len(cur) != 0 || len(headArgs) != int(c.pi.arity) {
		return nil, false
	}
	return xIf.Apply(c.pi.name.Apply(headArgs...), vConj(goals...)), true
}

// c10Normalize rewrites Head :- Body as the list of its goals in order (as the decompiler prints it), with
// variable goals as call(V) (ISO 7.6.2).
func c10Normalize(cl Term) Term {
	h, b := rHeadBody(cl)
	goals := c10Flatten(b, nil)
	if len(goals) == 1 && goals[0] == Term(xTrue) {
		// a fact: the compiled form has no body at all
		return xIf.Apply(h, xTrue)
	}
	return xIf.Apply(h, vConj(goals...))
}

// c10Flatten lists the goals of a conjunction tree in order (conjunction is associative: (A, B), C = A, (B, C)).
func c10Flatten(b Term, acc []Term) []Term {
	if c, ok := b.(Compound); ok && c.Functor() == xComma && c.Arity() == 2 {
		return c10Flatten(c.Arg(1), c10Flatten(c.Arg(0), acc))
	}
	return append(acc, c10Goal(b))
}

// c10CallVars shows every variable goal of a clause body as call(V).
func c10CallVars(cl Term) Term {
	h, b := rHeadBody(cl)
	return xIf.Apply(h, rConvertBody(b, nil))
}

func c10Goal(g Term) Term {
	if v, ok := g.(Variable); ok {
		return xCall.Apply(v)
	}
	return g
}

func c10Run(vm *VM, m func() *rM, qtext string, consts *vConsts, max int) (vImplRun, rRun) {
	q, qvars, err := vParseQuery(vm, qtext)
	verify(err == nil, "harness: query does not parse: "+qtext)
	q = vSubst(q, consts, 3)
	vars := make([]Variable, len(qvars))
	for i, pv := range qvars {
		vars[i] = pv.Variable
	}
	ref := m().run(q, vars)
	impl := vRunImpl(vm, q, vars, max, nil)
	return impl, ref
}

func VH_C10(vm *VM, inst int) {
	c := c10Cases[inst]
	note("case", c.name+": "+strings.Join(c.setup, " ")+" | "+strings.Join(c.probes, " "))
	consts := vNewConsts(3)
	db := &rDB{}
	newM := func() *rM { return newRM(db, 400, 6) }
	kfOpen := c.kf != ""
	for _, s := range c.setup {
		impl, ref := c10Run(vm, newM, s, consts, 6)
		vCompareRuns(c.name+"/setup", impl, ref, "", false)
	}
	// (1) clause/2 in a fresh environment sees exactly the reference's clauses (variants, bindings applied)
	for _, ps := range c.preds {
		name, arity := c10PI(ps)
		listing, err := c10Listing(vm, name, arity)
		verify(err == nil, c.name+": clause/2 raised an error")
		want := db.listing(name, arity)
		same := len(listing) == len(want)
		if same {
			for i := range listing {
				// a variable goal may be shown as G or as call(G) (ISO 7.6.2 converts it when the clause is created)
				same = bAnd(same, vVariantV(c10CallVars(listing[i]), c10CallVars(want[i]), &rRename{}, &rRename{}))
			}
		}
		verifyKF(same, c.name+": clause/2 does not show the clause terms that were given", c.kf, kfOpen)
		// (2) the compiled form denotes the source term
		if p, ok := vm.procedures[procedureIndicator{name: name, arity: Integer(arity)}]; ok {
			u, isU := p.(*userDefined)
			verify(isU, c.name+": not a user-defined procedure")
			okDec := len(u.clauses) == len(want)
			if okDec {
				for i, cl := range u.clauses {
					dec, ok := c10Decompile(cl)
					if !ok {
						okDec = false
						break
					}
					okDec = bAnd(okDec, vVariantV(dec, c10Normalize(want[i]), &rRename{}, &rRename{}))
				}
			}
			verifyKF(okDec, c.name+": compiled clause does not denote its source term", c.kf, kfOpen)
		} else {
			verify(len(want) == 0, c.name+": predicate missing from the procedure table")
		}
	}
	// (3) the predicate behaves as the clause term prescribes
	for _, q := range c.probes {
		impl, ref := c10Run(vm, newM, q, consts, 6)
		if c.kfProbes {
			vCompareRuns(c.name+"/probe", impl, ref, c.kf, kfOpen)
		} else {
			vCompareRuns(c.name+"/probe", impl, ref, "", false)
		}
	}
	reach("c10/done", true)
}

// ---- path B: the same clauses loaded from text behave and are stored identically ----

type c10TextCase struct {
	name   string
	text   string   // program text (constants are concrete letters chosen by case split: kA kB)
	probes []string
	preds  []string
}

var c10TextCases = []c10TextCase{
	{name: "text-facts", text: ":- dynamic(foo/2). foo(@0, f(@1)). foo(X, X). foo([@0|T], T).", probes: []string{"foo(A, B).", "foo([X, Y], Z)."}, preds: []string{"foo/2"}},
	{name: "text-rules", text: ":- dynamic(foo/1). :- dynamic(bar/1). bar(@0). bar(@1). foo(X) :- bar(X), X \\== @0. foo(Y) :- Y = [@1|_].", probes: []string{"foo(A)."}, preds: []string{"foo/1", "bar/1"}},
	{name: "text-strings", text: ":- dynamic(foo/2). foo(\"a@0\", X) :- X = \"\". foo([H|T], H-T).", probes: []string{"foo(A, B).", "foo(\"xy\", R)."}, preds: []string{"foo/2"}},
	{name: "text-cut-and-var-goal", text: ":- dynamic(foo/2). :- dynamic(bar/1). bar(@0). bar(@1). foo(G, X) :- bar(X), G, !. foo(_, none).", probes: []string{"foo(true, X).", "foo(fail, X)."}, preds: []string{"foo/2"}},
	{name: "text-same-variable-names", text: ":- dynamic(foo/1). :- dynamic(bar/1). foo(X). bar(X) :- baz(X). baz(_).", probes: []string{"retract(foo(@0)), clause(bar(Y), B).", "bar(Y)."}, preds: []string{"bar/1"}},
	{name: "text-same-variable-names-2", text: ":- dynamic(foo/2). :- dynamic(bar/2). foo(X, Y) :- Y = X. foo(_, X) :- X = @1. bar(Y, X) :- X = @0.", probes: []string{"retract((bar(@1, Z) :- B)), clause(foo(P, Q), R).", "foo(P, Q)."}, preds: []string{"foo/2"}},
	{name: "text-static-call", text: "bar(@0). bar(@1). foo(X, Y) :- bar(X), bar(Y), X @< Y.", probes: []string{"foo(A, B)."}, preds: nil},
}

func VH_C10_text(vm *VM, inst int) {
	c := c10TextCases[inst]
	letters := []string{"a", "b"}
	text := c.text
	text = strings.ReplaceAll(text, "@0", letters[choice("c0", 2)])
	text = strings.ReplaceAll(text, "@1", letters[choice("c1", 2)])
	note("case", c.name+": "+text)
	// implementation: load the text; reference: parse the same text and add clause by clause
	err := vm.Compile(context.Background(), text)
	verify(err == nil, c.name+": loading the text failed")
	terms, perr := vParseAll(vm, text)
	verify(perr == nil, "harness: text does not parse")
	db := &rDB{}
	for _, t := range terms {
		if d, ok := t.(Compound); ok && d.Functor() == xIf && d.Arity() == 1 {
			continue // directive
		}
		db.add(rCopy(t, nil, &rRename{}), false, true)
	}
	consts := vNewConsts(3)
	newM := func() *rM { return newRM(db, 400, 6) }
	for _, ps := range c.preds {
		name, arity := c10PI(ps)
		listing, err := c10Listing(vm, name, arity)
		verify(err == nil, c.name+": clause/2 raised an error")
		want := db.listing(name, arity)
		same := len(listing) == len(want)
		if same {
			for i := range listing {
				same = bAnd(same, vVariantV(c10CallVars(listing[i]), c10CallVars(want[i]), &rRename{}, &rRename{}))
			}
		}
		verify(same, c.name+": clause/2 does not show the clauses of the text")
		p := vm.procedures[procedureIndicator{name: name, arity: Integer(arity)}]
		u, isU := p.(*userDefined)
		verify(isU && len(u.clauses) == len(want), c.name+": stored clause count differs from the text")
		for i, cl := range u.clauses {
			dec, ok := c10Decompile(cl)
			verify(ok, c.name+": bytecode of a loaded clause is malformed")
			verify(vVariantV(dec, c10Normalize(want[i]), &rRename{}, &rRename{}), c.name+": compiled clause does not denote its source term")
		}
	}
	for _, q := range c.probes {
		q = strings.ReplaceAll(q, "@0", letters[0])
		q = strings.ReplaceAll(q, "@1", letters[1])
		impl, ref := c10Run(vm, newM, q, consts, 6)
		vCompareRuns(c.name+"/probe", impl, ref, "", false)
	}
	reach("c10/text-done", true)
}

// VH_C10_bootstrap: every clause of bootstrap.pl, as loaded by New(), decompiles to a variant of its source clause.
func VH_C10_bootstrap(vm *VM, text string) {
	terms, err := vParseAll(vm, text)
	verify(err == nil, "harness: bootstrap.pl does not parse")
	// group source clauses by predicate, in order (DCG rules and directives are skipped)
	type group struct {
		pi  procedureIndicator
		cls []Term
	}
	var groups []*group
	for _, t := range terms {
		if d, ok := t.(Compound); ok && d.Arity() == 1 && d.Functor() == xIf {
			continue
		}
		if d, ok := t.(Compound); ok && d.Functor() == NewAtom("-->") {
			continue
		}
		h, _ := rHeadBody(t)
		name, arity, _ := rNameArity(h)
		pi := procedureIndicator{name: name, arity: Integer(arity)}
		var g *group
		for _, x := range groups {
			if x.pi == pi {
				g = x
			}
		}
		if g == nil {
			g = &group{pi: pi}
			groups = append(groups, g)
		}
		g.cls = append(g.cls, t)
	}
	checked := 0
	for _, g := range groups {
		p, ok := vm.procedures[g.pi]
		verify(ok, "bootstrap predicate missing: "+g.pi.String())
		u, ok := p.(*userDefined)
		if !ok {
			continue
		}
		// a source clause with a top-level disjunctive body is stored as one clause per alternative
		var want []Term
		for _, cl := range g.cls {
			h, b := rHeadBody(cl)
			alts := []Term{b}
			for {
				last := alts[len(alts)-1]
				c, ok := last.(Compound)
				if !ok || c.Functor() != xSemiColon || c.Arity() != 2 {
					break
				}
				if ite, ok := c.Arg(0).(Compound); ok && ite.Functor() == xThen && ite.Arity() == 2 {
					break
				}
				alts = append(alts[:len(alts)-1], c.Arg(0), c.Arg(1))
			}
			for _, a := range alts {
				want = append(want, xIf.Apply(h, a))
			}
		}
		verify(len(u.clauses) == len(want), "bootstrap: clause count of "+g.pi.String()+" differs from the source")
		for i, cl := range u.clauses {
			dec, ok := c10Decompile(cl)
			verify(ok, "bootstrap: malformed bytecode in "+g.pi.String())
			verify(vVariantV(dec, c10Normalize(want[i]), &rRename{}, &rRename{}), "bootstrap: compiled clause of "+g.pi.String()+" does not denote its source")
			checked++
		}
	}
	note("bootstrap_clauses_checked", checked)
	verify(checked > 50, "bootstrap: too few clauses checked")
}


// VH_C10_gen: the generated family of C01 (heads of arity inst with four argument shapes, 2..3 disjuncts): every
// stored clause must decompile to Head :- Alternative_i, in order (the per-alternative storage itself is the known
// finding C10/disjunctive-body-stored-per-alternative; what each stored clause denotes is checked here).
func VH_C10_gen(vm *VM, inst int) {
	clauses, head, alts, _, _ := c01GenClause(inst)
	for _, cl := range clauses {
		ok, err := Assertz(vm, cl, Success, nil).Force(context.Background())
		verify(ok && err == nil, "harness: assertz failed")
	}
	name, arity, _ := rNameArity(head)
	p, ok := vm.procedures[procedureIndicator{name: name, arity: Integer(arity)}]
	verify(ok, "gen: predicate missing")
	u := p.(*userDefined)
	verify(len(u.clauses) == len(alts), "gen: number of stored clauses differs from the number of alternatives")
	for i, cl := range u.clauses {
		dec, ok := c10Decompile(cl)
		verify(ok, "gen: malformed bytecode")
		want := c10Normalize(xIf.Apply(head, alts[i]))
		verify(vVariantV(dec, want, &rRename{}, &rRename{}), "gen: stored clause does not denote Head :- Alternative")
	}
	reach("c10/gen-done", true)
}

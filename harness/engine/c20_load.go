//go:build verif

package engine

// C20 — loading defines clauses in source order; a failed load defines nothing.

import (
	"context"
	"strings"
)

type c20Item struct {
	kind  int    // 0 clause, 1 declaration, 2 plain directive, 3 initialization, 4 fault
	pred  string // "p", "q", "r", "m"
	arity int
	c     byte   // constant (concrete letter or symbolic byte), 0 for arity 0
	csym  bool
	text  string // for declarations / directives / faults
	decl  string // "dynamic" | "discontiguous" | "multifile"
}

type c20Pred struct {
	clauses       []byte // constants of the clauses, in order (0 for arity-0 facts)
	dynamic       bool
	discontiguous bool
	multifile     bool
	defined       bool
}

type c20DB map[string]*c20Pred

func (db c20DB) get(k string) *c20Pred {
	p, ok := db[k]
	if !ok {
		p = &c20Pred{}
		db[k] = p
	}
	return p
}

func (db c20DB) clone() c20DB {
	out := c20DB{}
	for k, p := range db {
		q := *p
		q.clauses = append([]byte{}, p.clauses...)
		out[k] = &q
	}
	return out
}

// c20RefLoad is the reference loader: stage, check, commit; returns ok and the initialization count to run.
func c20RefLoad(db c20DB, items []c20Item) (c20DB, bool, int) {
	staged := c20DB{}
	lastPred := ""
	closed := map[string]bool{} // predicates whose run of clauses has ended
	inits := 0
	for _, it := range items {
		switch it.kind {
		case 0:
			key := it.pred
			p := staged.get(key)
			if lastPred != "" && lastPred != key {
				closed[lastPred] = true
			}
			if closed[key] && !p.discontiguous {
				return db, false, 0 // clauses of a predicate separated by others without a discontiguous declaration
			}
			p.clauses = append(p.clauses, it.c)
			p.defined = true
			lastPred = key
		case 1:
			if lastPred != "" {
				closed[lastPred] = true
				lastPred = ""
			}
			p := staged.get(it.pred)
			p.defined = true
			switch it.decl {
			case "dynamic":
				p.dynamic = true
			case "discontiguous":
				p.discontiguous = true
			case "multifile":
				p.multifile = true
			}
		case 2:
			if lastPred != "" {
				closed[lastPred] = true
				lastPred = ""
			}
		case 3:
			if lastPred != "" {
				closed[lastPred] = true
				lastPred = ""
			}
			inits++
		case 4:
			return db, false, 0
		}
	}
	out := db.clone()
	for k, p := range staged {
		if !p.defined {
			continue
		}
		if ex, ok := out[k]; ok && ex.multifile && p.multifile {
			ex.clauses = append(ex.clauses, p.clauses...)
			continue
		}
		q := *p
		out[k] = &q
	}
	return out, true, inits
}

func c20Text(items []c20Item) string {
	var sb strings.Builder
	for _, it := range items {
		switch it.kind {
		case 0:
			sb.WriteString(it.pred)
			if it.arity > 0 {
				sb.WriteString("(")
				sb.WriteString(string([]byte{it.c}))
				sb.WriteString(")")
			}
			sb.WriteString(". ")
		default:
			sb.WriteString(it.text)
			sb.WriteString(" ")
		}
	}
	return sb.String()
}

var c20Arity = map[string]int{"p": 1, "q": 1, "r": 0, "m": 1, "d": 1}

// c20Observe reads the implementation's database for the four predicates.
func c20Observe(vm *VM) c20DB {
	out := c20DB{}
	for name, ar := range c20Arity {
		p, ok := vm.procedures[procedureIndicator{name: NewAtom(name), arity: Integer(ar)}]
		if !ok {
			continue
		}
		u, isU := p.(*userDefined)
		verify(isU, "a text predicate is not user-defined")
		q := &c20Pred{defined: true, dynamic: u.dynamic, discontiguous: u.discontiguous, multifile: u.multifile}
		for _, cl := range u.clauses {
			h, _ := rHeadBody(vPlain(cl.raw, nil))
			var c byte
			if hc, ok := h.(Compound); ok && hc.Arity() == 1 {
				a, isAtom := hc.Arg(0).(Atom)
				verify(isAtom, "stored clause argument is not an atom")
				c = byte(a)
			}
			q.clauses = append(q.clauses, c)
		}
		out[name] = q
	}
	return out
}

func c20Same(a, b c20DB, flags bool) bool {
	ok := true
	for name := range c20Arity {
		pa, oka := a[name]
		pb, okb := b[name]
		if oka != okb {
			return false
		}
		if !oka {
			continue
		}
		if len(pa.clauses) != len(pb.clauses) {
			return false
		}
		for i := range pa.clauses {
			ok = bAnd(ok, pa.clauses[i] == pb.clauses[i])
		}
		if flags && (pa.dynamic != pb.dynamic || pa.multifile != pb.multifile) {
			return false
		}
	}
	return ok
}

// c20Answers asks p(X) etc. through the VM; returns the constants in answer order, or error.
func c20Answers(vm *VM, name string) ([]byte, string) {
	v := NewVariable()
	var goal Term = NewAtom(name)
	if c20Arity[name] == 1 {
		goal = NewAtom(name).Apply(v)
	}
	var out []byte
	_, err := Call(vm, goal, func(e *Env) *Promise {
		if a, ok := e.Resolve(v).(Atom); ok {
			out = append(out, byte(a))
		} else {
			out = append(out, 0)
		}
		return Bool(false)
	}, nil).Force(context.Background())
	if err != nil {
		return nil, c18ErrKind(err)
	}
	return out, ""
}

// VH_C20: inst selects the family. Constants: one symbolic lower-case letter rendered into the text (the lexer
// runs on it symbolically) plus concrete letters.
//   0 clause orders and declarations, no fault     1 one fault of each kind at each position
//   2 multifile/replace on top of an earlier load  3 initialization goals and directives
//   4 discontiguous predicate with runs of 1..5 / 1..3 / 1..2 clauses
func VH_C20(vm *VM, inst int) {
	// earlier load (concrete): defines p/1, q/1 and multifile m/1
	err0 := vm.Compile(context.Background(), ":- multifile(m/1). :- dynamic(d/1). p(z). q(y). q(z). m(z). d(z). d(y).")
	verify(err0 == nil, "harness: the earlier load failed")
	before := c20Observe(vm)
	ref0 := c20DB{"p": {clauses: []byte{'z'}, defined: true}, "q": {clauses: []byte{'y', 'z'}, defined: true}, "m": {clauses: []byte{'z'}, defined: true, multifile: true}, "d": {clauses: []byte{'z', 'y'}, defined: true, dynamic: true}}
	verify(c20Same(before, ref0, true), "harness: earlier load not as expected")

	k := nondetUint8("k")
	assume(bAnd(k >= 'a', k <= 'c'))
	cl := func(pred string, c byte) c20Item { return c20Item{kind: 0, pred: pred, arity: c20Arity[pred], c: c} }
	decl := func(d, pred string) c20Item {
		return c20Item{kind: 1, pred: pred, decl: d, text: ":- " + d + "(" + pred + "/" + string(rune('0'+c20Arity[pred])) + ")."}
	}
	var items []c20Item
	switch inst {
	case 0:
		if choice("dyn", 2) == 1 {
			items = append(items, decl("dynamic", "p"))
		}
		disc := choice("disc", 2) == 1
		if disc {
			items = append(items, decl("discontiguous", "q"))
		}
		switch choice("order", 4) {
		case 0:
			items = append(items, cl("p", k), cl("p", 'b'), cl("q", 'a'), cl("q", k), cl("r", 0))
		case 1:
			items = append(items, cl("q", 'a'), cl("p", k), cl("p", 'b'), cl("r", 0), cl("r", 0))
		case 2: // interleaved q: needs the discontiguous declaration
			items = append(items, cl("q", 'a'), cl("p", k), cl("q", k), cl("r", 0))
		case 3:
			items = append(items, cl("r", 0), cl("q", k), c20Item{kind: 2, text: ":- true."}, cl("p", 'b'), cl("p", k))
		}
	case 1:
		base := []c20Item{cl("p", k), cl("p", 'b'), cl("q", 'a'), cl("r", 0)}
		pos := choice("faultpos", len(base)+1)
		var fault c20Item
		switch choice("fault", 10) {
		case 7:
			fault = c20Item{kind: 4, text: "foo :- p(a), 1, q(a)."} // a non-callable goal in the middle of a body
		case 8:
			fault = c20Item{kind: 4, text: "foo :- 1, p(a)."} // ... first
		case 9:
			fault = c20Item{kind: 4, text: "foo :- (p(a), 1), q(a)."} // ... nested on the left
		case 4:
			fault = c20Item{kind: 4, text: "'abc"} // unterminated quoted atom: runs to the end of the text
		case 5:
			fault = c20Item{kind: 4, text: "\"abc"} // unterminated string
		case 6:
			fault = c20Item{kind: 4, text: "p(0'"} // character code literal cut short
		case 0:
			fault = c20Item{kind: 4, text: "p(."}
		case 1:
			fault = c20Item{kind: 4, text: "1."}
		case 2:
			fault = c20Item{kind: 4, text: "foo :- 1."}
		case 3:
			fault = cl("p", 'c') // discontiguity when placed after q or r; harmless inside the p run
		}
		// optionally a declaration first: for a predicate the earlier load did not define (r/0) or one it did (p/1)
		switch choice("decl", 5) {
		case 1:
			items = append(items, decl("dynamic", "r"))
		case 2:
			items = append(items, decl("dynamic", "p"))
		case 3:
			items = append(items, decl("multifile", "r"))
		case 4:
			items = append(items, decl("discontiguous", "r"))
		}
		items = append(items, base[:pos]...)
		items = append(items, fault)
		items = append(items, base[pos:]...)
	case 2:
		if choice("mf", 2) == 1 {
			items = append(items, decl("multifile", "m"))
		}
		items = append(items, cl("m", k), cl("m", 'b'))
		if choice("alsop", 2) == 1 {
			items = append(items, cl("p", k))
		}
		// a predicate that is only declared, with no clauses: it exists and is empty, whatever it held before
		switch choice("declonly", 4) {
		case 1:
			items = append(items, decl("dynamic", "q")) // was static with two clauses
		case 2:
			items = append(items, decl("dynamic", "d")) // was dynamic with two clauses: same flags as before
		case 3:
			items = append(items, decl("discontiguous", "q")) // was static: same dynamic/multifile flags as before
		}
	case 3:
		items = append(items, c20Item{kind: 3, text: ":- initialization(assertz(init_ran))."}, cl("p", k))
		switch choice("tail", 3) {
		case 0:
			items = append(items, cl("p", 'b'))
		case 1:
			items = append(items, c20Item{kind: 2, text: ":- true."}, cl("q", 'a'))
		case 2:
			items = append(items, c20Item{kind: 4, text: "q(."})
		}
	}
	if inst == 4 {
		// runs of several lengths: q x n1, p x m, q x n2 (q discontiguous), then r
		items = append(items, decl("discontiguous", "q"))
		n1, m, n2 := 1+choice("run1", 5), 1+choice("mid", 3), 1+choice("run2", 2)
		letters := []byte{'a', 'b', 'c', 'd', 'e', 'f', 'g'}
		for i := 0; i < n1; i++ {
			items = append(items, cl("q", letters[i]))
		}
		for i := 0; i < m; i++ {
			c := letters[i]
			if i == 0 {
				c = k
			}
			items = append(items, cl("p", c))
		}
		for i := 0; i < n2; i++ {
			items = append(items, cl("q", letters[5+i]))
		}
		items = append(items, cl("r", 0))
	}
	text := c20Text(items)
	note("text", text)
	want, ok, inits := c20RefLoad(ref0, items)
	nprocs := len(vm.procedures)
	err := vm.Compile(context.Background(), text)
	after := c20Observe(vm)
	if ok {
		verify(err == nil, "a correct text failed to load")
		verify(c20Same(after, want, true), "after a successful load the predicates do not hold exactly the text's clauses in source order (or flags differ)")
		for name := range c20Arity {
			if p, exists := want[name]; exists {
				ans, kind := c20Answers(vm, name)
				verify(kind == "", "calling a loaded predicate raised an error")
				verify(len(ans) == len(p.clauses), "a loaded predicate answers a different number of clauses")
				for i := range ans {
					verify(ans[i] == p.clauses[i], "a loaded predicate answers in a different order")
				}
			}
		}
		reach("c20/loaded", true)
	} else {
		verify(err != nil, "a faulty text loaded without an error")
		verify(c20Same(after, before, true), "a failed load changed the database (some of the text's clauses became visible or earlier definitions changed)")
		verify(len(vm.procedures) == nprocs, "a failed load added or removed a procedure")
		reach("c20/failed-load-leaves-db", true)
	}
	// initialization goals run after a successful load only
	_, has := vm.procedures[procedureIndicator{name: NewAtom("init_ran"), arity: 0}]
	verify(has == (ok && inits > 0), "initialization goal: must run after a successful load and not at all after a failed one")
}

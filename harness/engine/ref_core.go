//go:build verif

package engine

// refprolog: a small reference Prolog core written from ISO/IEC 13211-1 §7, independent of the VM, the
// bytecode, the promise stack and the binding tree. It shares only the term constructors with the engine
// (terms are walked through the Compound interface). Depth-first, left-to-right SLD resolution with
// cut barriers, catch/throw, a logical-update-view database and findall/bagof/setof.


// own atom constants (the reference does not depend on the engine's variable names)
var (
	xTrue = NewAtom("true")
	xFail = NewAtom("fail")
	xFalse = NewAtom("false")
	xCut = NewAtom("!")
	xComma = NewAtom(",")
	xSemiColon = NewAtom(";")
	xThen = NewAtom("->")
	xNegation = NewAtom("\\+")
	xCall = NewAtom("call")
	xThrow = NewAtom("throw")
	xEqual = NewAtom("=")
	xVar = NewAtom("var")
	xAtom = NewAtom("atom")
	xIf = NewAtom(":-")
	xDot = NewAtom(".")
	xEmptyList = NewAtom("[]")
	xError = NewAtom("error")
	xTypeError = NewAtom("type_error")
	xInstantiationError = NewAtom("instantiation_error")
	xExistenceError = NewAtom("existence_error")
	xSlash = NewAtom("/")
	xList = NewAtom("list")
	xCaret = NewAtom("^")
	xMinus = NewAtom("-")
	xPlus = NewAtom("+")
	xAsterisk = NewAtom("*")
)

// ---- substitutions (persistent association list) ----

type rSub struct {
	v    Variable
	t    Term
	next *rSub
}

func (s *rSub) lookup(v Variable) (Term, bool) {
	for b := s; b != nil; b = b.next {
		if b.v == v {
			return b.t, true
		}
	}
	return nil, false
}

func rDeref(t Term, s *rSub) Term {
	for {
		v, ok := t.(Variable)
		if !ok {
			return t
		}
		b, ok := s.lookup(v)
		if !ok {
			return t
		}
		t = b
	}
}

// rResolve applies s to t completely; compounds are rebuilt as plain functor(args...) terms.
func rResolve(t Term, s *rSub) Term {
	t = rDeref(t, s)
	if c, ok := t.(Compound); ok {
		args := make([]Term, c.Arity())
		for i := range args {
			args[i] = rResolve(c.Arg(i), s)
		}
		return c.Functor().Apply(args...)
	}
	return t
}

func rUnify(a, b Term, s *rSub) (*rSub, bool) {
	a, b = rDeref(a, s), rDeref(b, s)
	if va, ok := a.(Variable); ok {
		if vb, ok := b.(Variable); ok && va == vb {
			return s, true
		}
		return &rSub{v: va, t: b, next: s}, true
	}
	if vb, ok := b.(Variable); ok {
		return &rSub{v: vb, t: a, next: s}, true
	}
	ca, aok := a.(Compound)
	cb, bok := b.(Compound)
	if aok != bok {
		return s, false
	}
	if !aok {
		if a == b { // atomic: same type and same value
			return s, true
		}
		return s, false
	}
	if ca.Arity() != cb.Arity() {
		return s, false
	}
	if ca.Functor() != cb.Functor() {
		return s, false
	}
	ok := true
	for i := 0; i < ca.Arity(); i++ {
		s, ok = rUnify(ca.Arg(i), cb.Arg(i), s)
		if !ok {
			return s, false
		}
	}
	return s, true
}

// rOccurs reports whether variable v occurs in t under s.
func rOccurs(v Variable, t Term, s *rSub) bool {
	t = rDeref(t, s)
	if w, ok := t.(Variable); ok {
		return w == v
	}
	if c, ok := t.(Compound); ok {
		for i := 0; i < c.Arity(); i++ {
			if rOccurs(v, c.Arg(i), s) {
				return true
			}
		}
	}
	return false
}

// rUnifyOC is unification with occurs check.
func rUnifyOC(a, b Term, s *rSub) (*rSub, bool) {
	a, b = rDeref(a, s), rDeref(b, s)
	if va, ok := a.(Variable); ok {
		if vb, ok := b.(Variable); ok && va == vb {
			return s, true
		}
		if rOccurs(va, b, s) {
			return s, false
		}
		return &rSub{v: va, t: b, next: s}, true
	}
	if vb, ok := b.(Variable); ok {
		if rOccurs(vb, a, s) {
			return s, false
		}
		return &rSub{v: vb, t: a, next: s}, true
	}
	ca, aok := a.(Compound)
	cb, bok := b.(Compound)
	if aok != bok {
		return s, false
	}
	if !aok {
		if a == b {
			return s, true
		}
		return s, false
	}
	if ca.Arity() != cb.Arity() || ca.Functor() != cb.Functor() {
		return s, false
	}
	ok := true
	for i := 0; i < ca.Arity(); i++ {
		s, ok = rUnifyOC(ca.Arg(i), cb.Arg(i), s)
		if !ok {
			return s, false
		}
	}
	return s, true
}

type rRename struct {
	from []Variable
	to   []Variable
}

func (r *rRename) get(v Variable) Variable {
	for i, f := range r.from {
		if f == v {
			return r.to[i]
		}
	}
	n := NewVariable()
	r.from = append(r.from, v)
	r.to = append(r.to, n)
	return n
}

// rCopy returns a copy of t (resolved under s) with its unbound variables renamed consistently through r.
func rCopy(t Term, s *rSub, r *rRename) Term {
	t = rDeref(t, s)
	switch x := t.(type) {
	case Variable:
		return r.get(x)
	case Compound:
		args := make([]Term, x.Arity())
		for i := range args {
			args[i] = rCopy(x.Arg(i), s, r)
		}
		return x.Functor().Apply(args...)
	}
	return t
}

// rVars appends the distinct unbound variables of t (under s) in depth-first left-to-right order.
func rVars(t Term, s *rSub, acc []Variable) []Variable {
	t = rDeref(t, s)
	switch x := t.(type) {
	case Variable:
		for _, v := range acc {
			if v == x {
				return acc
			}
		}
		return append(acc, x)
	case Compound:
		for i := 0; i < x.Arity(); i++ {
			acc = rVars(x.Arg(i), s, acc)
		}
	}
	return acc
}

// rIdentical: structural identity (==/2) of two terms under s.
func rIdentical(a, b Term, s *rSub) bool {
	return rCompare(a, b, s) == 0
}

func rTypeRank(t Term) int {
	switch t.(type) {
	case Variable:
		return 0
	case Float:
		return 1
	case Integer:
		return 2
	case Atom:
		return 3
	case Compound:
		return 4
	}
	return 5
}

// rCompare is the reference standard order of terms (ISO 13211-1 7.2): Var < Float < Integer < Atom < Compound;
// numbers of one type by value, atoms by text, compounds by arity, name, arguments left to right.
func rCompare(a, b Term, s *rSub) int {
	a, b = rDeref(a, s), rDeref(b, s)
	ra, rb := rTypeRank(a), rTypeRank(b)
	if ra != rb {
		if ra < rb {
			return -1
		}
		return 1
	}
	switch x := a.(type) {
	case Variable:
		y := b.(Variable)
		switch {
		case x < y:
			return -1
		case x > y:
			return 1
		}
		return 0
	case Float:
		y := b.(Float)
		switch {
		case x < y:
			return -1
		case x > y:
			return 1
		}
		return 0
	case Integer:
		y := b.(Integer)
		switch {
		case x < y:
			return -1
		case x > y:
			return 1
		}
		return 0
	case Atom:
		y := b.(Atom)
		if x == y {
			return 0
		}
		sx, sy := x.String(), y.String()
		switch {
		case sx < sy:
			return -1
		case sx > sy:
			return 1
		}
		return 0
	case Compound:
		y := b.(Compound)
		switch {
		case x.Arity() < y.Arity():
			return -1
		case x.Arity() > y.Arity():
			return 1
		}
		if c := rCompare(x.Functor(), y.Functor(), s); c != 0 {
			return c
		}
		for i := 0; i < x.Arity(); i++ {
			if c := rCompare(x.Arg(i), y.Arg(i), s); c != 0 {
				return c
			}
		}
		return 0
	}
	return 0
}

// ---- database with logical update view ----

type rClause struct {
	head, body Term
	born, died int // generations; died == 0: alive
}

type rPred struct {
	name    Atom
	arity   int
	clauses []*rClause
	dynamic bool
}

type rDB struct {
	preds []*rPred
	gen   int
}

func (db *rDB) find(name Atom, arity int) *rPred {
	for _, p := range db.preds {
		if p.name == name && p.arity == arity {
			return p
		}
	}
	return nil
}

func (db *rDB) ensure(name Atom, arity int) *rPred {
	if p := db.find(name, arity); p != nil {
		return p
	}
	p := &rPred{name: name, arity: arity}
	db.preds = append(db.preds, p)
	return p
}

func rHeadBody(cl Term) (Term, Term) {
	if c, ok := cl.(Compound); ok && c.Functor() == xIf && c.Arity() == 2 {
		return c.Arg(0), c.Arg(1)
	}
	return cl, xTrue
}

func rNameArity(t Term) (Atom, int, bool) {
	switch x := t.(type) {
	case Atom:
		return x, 0, true
	case Compound:
		return x.Functor(), x.Arity(), true
	}
	return 0, 0, false
}

// rConvertBody is ISO 7.6.2: a variable in goal position of a body becomes call(Variable), so that it is
// executed opaquely (cut-local) whatever it is bound to when the clause runs.
func rConvertBody(b Term, s *rSub) Term {
	b = rDeref(b, s)
	switch x := b.(type) {
	case Variable:
		return xCall.Apply(x)
	case Compound:
		f := x.Functor()
		if x.Arity() == 2 && (f == xComma || f == xSemiColon || f == xThen) {
			return f.Apply(rConvertBody(x.Arg(0), s), rConvertBody(x.Arg(1), s))
		}
	}
	return b
}

// add stores a clause (already resolved and renamed apart) at the front or the end.
func (db *rDB) add(cl Term, front bool, dynamic bool) {
	h, b := rHeadBody(cl)
	b = rConvertBody(b, nil)
	name, arity, _ := rNameArity(h)
	p := db.ensure(name, arity)
	if dynamic {
		p.dynamic = true
	}
	db.gen++
	c := &rClause{head: h, body: b, born: db.gen}
	if front {
		p.clauses = append([]*rClause{c}, p.clauses...)
	} else {
		p.clauses = append(p.clauses, c)
	}
}

// snapshot returns the clauses alive now, in database order.
func (p *rPred) snapshot() []*rClause {
	var out []*rClause
	for _, c := range p.clauses {
		if c.died == 0 {
			out = append(out, c)
		}
	}
	return out
}

// listing returns the alive clauses as (Head :- Body) terms.
func (db *rDB) listing(name Atom, arity int) []Term {
	p := db.find(name, arity)
	if p == nil {
		return nil
	}
	var out []Term
	for _, c := range p.snapshot() {
		out = append(out, xIf.Apply(c.head, c.body))
	}
	return out
}

// ---- the machine ----

type rKind int

const (
	rFail rKind = iota
	rStop       // the consumer wants no more answers
	rCut        // a cut is unwinding to barrier cutTo
	rThrow      // an exception is unwinding
	rBudget     // step budget exceeded
	rCond       // internal: condition of if-then-else / \+ / once found its first solution (barrier cutTo)
)

type rOut struct {
	kind  rKind
	cutTo int
	ball  Term
	pass  []int // catch frames this exception has already left (they must not intercept it)
}

type rK func(s *rSub) rOut

type rM struct {
	db         *rDB
	steps      int
	maxSteps   int
	barriers   int
	answers    [][]Term
	maxAnswers int
	trace      []Term
	unknownFail bool
	// retract/1 redo on a snapshot clause already removed by a nested goal: succeed (without removing) or skip
	redoSucceedsOnRemoved bool
	sawRemovedMatch       bool
}

func newRM(db *rDB, maxSteps, maxAnswers int) *rM {
	return &rM{db: db, maxSteps: maxSteps, maxAnswers: maxAnswers}
}

func (m *rM) barrier() int {
	m.barriers++
	return m.barriers
}

var (
	rAtomOnce       = NewAtom("once")
	rAtomFindall    = NewAtom("findall")
	rAtomBagof      = NewAtom("bagof")
	rAtomSetof      = NewAtom("setof")
	rAtomEmit       = NewAtom("emit")
	rAtomNotUnify   = NewAtom(`\=`)
	rAtomIdentical  = NewAtom("==")
	rAtomNotIdent   = NewAtom(`\==`)
	rAtomNonvar     = NewAtom("nonvar")
	rAtomAssertz    = NewAtom("assertz")
	rAtomAsserta    = NewAtom("asserta")
	rAtomRetract    = NewAtom("retract")
	rAtomRetractall = NewAtom("retractall")
	rAtomAbolish    = NewAtom("abolish")
	rAtomClause     = NewAtom("clause")
	rAtomCatch      = NewAtom("catch")
	rAtomIs         = NewAtom("is")
	rAtomAtomLength = NewAtom("atom_length")
	rAtomMember     = NewAtom("member")
	rAtomCompareOp  = NewAtom("compare")
	rAtomUnifyOC    = NewAtom("unify_with_occurs_check")
	rAtomCopyTerm   = NewAtom("copy_term")
	rAtomSort       = NewAtom("sort")
	rAtomMsort      = NewAtom("msort")
	rAtomKeysort    = NewAtom("keysort")
	rAtomLt         = NewAtom("<")
	rAtomGt         = NewAtom(">")
	rAtomEq         = NewAtom("=")
	rAtomTermLt     = NewAtom("@<")
	rAtomTermGt     = NewAtom("@>")
	rAtomTermLe     = NewAtom("@=<")
	rAtomTermGe     = NewAtom("@>=")
	rAtomHalt       = NewAtom("halt")
	rAtomInteger    = NewAtom("integer")
	rAtomCallable   = NewAtom("callable")
	rAtomProcedure  = NewAtom("procedure")
	rAtomEvaluable  = NewAtom("evaluable")
	rAtomAccess     = NewAtom("access")
	rAtomModify     = NewAtom("modify")
	rAtomPrivProc   = NewAtom("private_procedure")
	rAtomStaticProc = NewAtom("static_procedure")
	rAtomPermission = NewAtom("permission_error")
	rAtomPredInd    = NewAtom("predicate_indicator")
)

var rImplContext = NewAtom("$implementation_defined_context")

func rErr(formal Term) rOut {
	// the context of an error raised by a built-in is implementation defined (ISO 7.12.2): the reference marks it, and the
	// comparison ignores the implementation's context exactly where the mark is (a ball thrown by the program keeps ITS context)
	return rOut{kind: rThrow, ball: xError.Apply(formal, rImplContext)}
}

func rInstErr() rOut { return rErr(xInstantiationError) }
func rTypeErr(typ Atom, culprit Term) rOut {
	return rErr(xTypeError.Apply(typ, culprit))
}

// rCallableBody: a goal body is callable if every leaf of its control structure is callable or a variable.
func rCallableBody(g Term, s *rSub) bool {
	g = rDeref(g, s)
	switch x := g.(type) {
	case Variable:
		return true
	case Atom:
		return true
	case Compound:
		f := x.Functor()
		if x.Arity() == 2 && (f == xComma || f == xSemiColon || f == xThen) {
			return rCallableBody(x.Arg(0), s) && rCallableBody(x.Arg(1), s)
		}
		return true
	}
	return false
}

func rList(ts []Term) Term {
	var l Term = xEmptyList
	for i := len(ts) - 1; i >= 0; i-- {
		l = xDot.Apply(ts[i], l)
	}
	return l
}

// rListElems returns the elements of a proper list; ok=false if t is not a proper list (partial=true if it ends
// in an unbound variable).
func rListElems(t Term, s *rSub) (elems []Term, ok bool, partial bool) {
	for n := 0; n < 10000; n++ {
		t = rDeref(t, s)
		switch x := t.(type) {
		case Variable:
			return elems, false, true
		case Atom:
			return elems, x == xEmptyList, false
		case Compound:
			if x.Functor() != xDot || x.Arity() != 2 {
				return elems, false, false
			}
			elems = append(elems, x.Arg(0))
			t = x.Arg(1)
		default:
			return elems, false, false
		}
	}
	return elems, false, false
}

// solve runs goal under s; cutB is the barrier a cut in this goal unwinds to.
func (m *rM) solve(goal Term, s *rSub, cutB int, k rK) rOut {
	m.steps++
	if m.steps > m.maxSteps {
		return rOut{kind: rBudget}
	}
	g := rDeref(goal, s)
	var f Atom
	var n int
	var c Compound
	switch x := g.(type) {
	case Variable:
		return rInstErr()
	case Atom:
		f = x
	case Compound:
		c, f, n = x, x.Functor(), x.Arity()
	default:
		return rTypeErr(rAtomCallable, g)
	}
	arg := func(i int) Term { return c.Arg(i) }
	switch {
	case f == xTrue && n == 0:
		return k(s)
	case (f == xFail || f == xFalse) && n == 0:
		return rOut{kind: rFail}
	case f == xCut && n == 0:
		r := k(s)
		if r.kind == rFail {
			return rOut{kind: rCut, cutTo: cutB}
		}
		return r
	case f == xComma && n == 2:
		return m.solve(arg(0), s, cutB, func(s2 *rSub) rOut { return m.solve(arg(1), s2, cutB, k) })
	case f == xSemiColon && n == 2:
		if ite, ok := rDeref(arg(0), s).(Compound); ok && ite.Functor() == xThen && ite.Arity() == 2 {
			return m.ifThenElse(ite.Arg(0), ite.Arg(1), arg(1), s, cutB, k)
		}
		r := m.solve(arg(0), s, cutB, k)
		if r.kind != rFail {
			return r
		}
		return m.solve(arg(1), s, cutB, k)
	case f == xThen && n == 2:
		return m.ifThenElse(arg(0), arg(1), xFail, s, cutB, k)
	case f == xNegation && n == 1:
		if !rCallableBody(arg(0), s) {
			return rTypeErr(rAtomCallable, rResolve(arg(0), s))
		}
		b := m.barrier()
		r := m.solve(arg(0), s, b, func(*rSub) rOut { return rOut{kind: rCond, cutTo: b} })
		switch {
		case r.kind == rCond && r.cutTo == b:
			return rOut{kind: rFail}
		case r.kind == rFail, r.kind == rCut && r.cutTo == b:
			return k(s)
		}
		return r
	case f == rAtomOnce && n == 1:
		return m.ifThenElse(arg(0), xTrue, xFail, s, cutB, k)
	case f == xCall && n >= 1:
		goal := rDeref(arg(0), s)
		if n > 1 {
			switch x := goal.(type) {
			case Variable:
				return rInstErr()
			case Atom:
				extra := make([]Term, n-1)
				for i := 1; i < n; i++ {
					extra[i-1] = arg(i)
				}
				goal = x.Apply(extra...)
			case Compound:
				all := make([]Term, 0, x.Arity()+n-1)
				for i := 0; i < x.Arity(); i++ {
					all = append(all, x.Arg(i))
				}
				for i := 1; i < n; i++ {
					all = append(all, arg(i))
				}
				goal = x.Functor().Apply(all...)
			default:
				return rTypeErr(rAtomCallable, goal)
			}
		}
		return m.callGoal(goal, s, k)
	case f == rAtomCatch && n == 3:
		return m.catch(arg(0), arg(1), arg(2), s, k)
	case f == xThrow && n == 1:
		b := rDeref(arg(0), s)
		if _, ok := b.(Variable); ok {
			return rInstErr()
		}
		return rOut{kind: rThrow, ball: rCopy(b, s, &rRename{})}
	case f == rAtomFindall && n == 3:
		return m.findall(arg(0), arg(1), arg(2), s, k)
	case (f == rAtomBagof || f == rAtomSetof) && n == 3:
		return m.bagof(arg(0), arg(1), arg(2), f == rAtomSetof, s, k)
	case f == xEqual && n == 2:
		s2, ok := rUnify(arg(0), arg(1), s)
		if !ok {
			return rOut{kind: rFail}
		}
		return k(s2)
	case f == rAtomUnifyOC && n == 2:
		s2, ok := rUnifyOC(arg(0), arg(1), s)
		if !ok {
			return rOut{kind: rFail}
		}
		return k(s2)
	case f == rAtomNotUnify && n == 2:
		if _, ok := rUnify(arg(0), arg(1), s); ok {
			return rOut{kind: rFail}
		}
		return k(s)
	case f == rAtomIdentical && n == 2:
		if rIdentical(arg(0), arg(1), s) {
			return k(s)
		}
		return rOut{kind: rFail}
	case f == rAtomNotIdent && n == 2:
		if !rIdentical(arg(0), arg(1), s) {
			return k(s)
		}
		return rOut{kind: rFail}
	case f == xVar && n == 1:
		if _, ok := rDeref(arg(0), s).(Variable); ok {
			return k(s)
		}
		return rOut{kind: rFail}
	case f == rAtomNonvar && n == 1:
		if _, ok := rDeref(arg(0), s).(Variable); !ok {
			return k(s)
		}
		return rOut{kind: rFail}
	case f == xAtom && n == 1:
		if _, ok := rDeref(arg(0), s).(Atom); ok {
			return k(s)
		}
		return rOut{kind: rFail}
	case f == rAtomInteger && n == 1:
		if _, ok := rDeref(arg(0), s).(Integer); ok {
			return k(s)
		}
		return rOut{kind: rFail}
	case f == rAtomEmit && n == 1:
		m.trace = append(m.trace, rCopy(arg(0), s, &rRename{}))
		return k(s)
	case f == rAtomCopyTerm && n == 2:
		cp := rCopy(arg(0), s, &rRename{})
		s2, ok := rUnify(arg(1), cp, s)
		if !ok {
			return rOut{kind: rFail}
		}
		return k(s2)
	case f == rAtomIs && n == 2:
		v, out, ok := m.eval(arg(1), s)
		if !ok {
			return out
		}
		s2, ok := rUnify(arg(0), v, s)
		if !ok {
			return rOut{kind: rFail}
		}
		return k(s2)
	case (f == rAtomAssertz || f == rAtomAsserta) && n == 1:
		return m.assert(arg(0), f == rAtomAsserta, s, k)
	case f == rAtomRetract && n == 1:
		return m.retract(arg(0), s, k)
	case f == rAtomClause && n == 2:
		return m.clause(arg(0), arg(1), s, k)
	case n == 2 && (f == rAtomTermLt || f == rAtomTermGt || f == rAtomTermLe || f == rAtomTermGe):
		c := rCompare(arg(0), arg(1), s)
		if (f == rAtomTermLt && c < 0) || (f == rAtomTermGt && c > 0) || (f == rAtomTermLe && c <= 0) || (f == rAtomTermGe && c >= 0) {
			return k(s)
		}
		return rOut{kind: rFail}
	case f == rAtomCompareOp && n == 3:
		c := rCompare(arg(1), arg(2), s)
		o := rAtomEq
		if c < 0 {
			o = rAtomLt
		} else if c > 0 {
			o = rAtomGt
		}
		s2, ok := rUnify(arg(0), o, s)
		if !ok {
			return rOut{kind: rFail}
		}
		return k(s2)
	case f == rAtomPhrase && (n == 2 || n == 3):
		var rest Term = xEmptyList
		if n == 3 {
			rest = arg(2)
		}
		body := rDeref(arg(0), s)
		if _, isVar := body.(Variable); isVar {
			return rInstErr()
		}
		switch body.(type) {
		case Atom, Compound:
		default:
			return rTypeErr(rAtomCallable, body)
		}
		// the list arguments must be lists or partial lists
		if _, ok, partial := rListElems(arg(1), s); !ok && !partial {
			return rTypeErr(xList, rResolve(arg(1), s))
		}
		if _, ok, partial := rListElems(rest, s); !ok && !partial {
			return rTypeErr(xList, rResolve(rest, s))
		}
		goal, ok := rDCGBody(rResolve(body, s), arg(1), rest)
		if !ok {
			return rTypeErr(rAtomCallable, rResolve(body, s))
		}
		return m.callGoal(goal, s, k)
	case f == rAtomRetractall && n == 1:
		return m.retractall(arg(0), s, k)
	case f == rAtomAbolish && n == 1:
		return m.abolish(arg(0), s, k)
	}
	// user-defined predicate
	p := m.db.find(f, n)
	if p == nil {
		if m.unknownFail {
			return rOut{kind: rFail}
		}
		return rErr(xExistenceError.Apply(rAtomProcedure, xSlash.Apply(f, Integer(n))))
	}
	b := m.barrier()
	for _, cl := range p.snapshot() {
		ren := &rRename{}
		h := rCopy(cl.head, nil, ren)
		body := rCopy(cl.body, nil, ren)
		s2, ok := rUnify(g, h, s)
		if !ok {
			continue
		}
		r := m.solve(body, s2, b, k)
		switch r.kind {
		case rFail:
			continue
		case rCut:
			if r.cutTo == b {
				return rOut{kind: rFail}
			}
			return r
		default:
			return r
		}
	}
	return rOut{kind: rFail}
}

// callGoal is call/1: the goal is checked to be callable, and cut inside it is local.
func (m *rM) callGoal(goal Term, s *rSub, k rK) rOut {
	goal = rDeref(goal, s)
	if _, ok := goal.(Variable); ok {
		return rInstErr()
	}
	switch goal.(type) {
	case Atom, Compound:
	default:
		return rTypeErr(rAtomCallable, goal)
	}
	if !rCallableBody(goal, s) {
		return rTypeErr(rAtomCallable, rResolve(goal, s))
	}
	b := m.barrier()
	r := m.solve(rConvertBody(goal, s), s, b, k)
	if r.kind == rCut && r.cutTo == b {
		return rOut{kind: rFail}
	}
	return r
}

func (m *rM) ifThenElse(cond, then, els Term, s *rSub, cutB int, k rK) rOut {
	if !rCallableBody(cond, s) {
		return rTypeErr(rAtomCallable, rResolve(cond, s))
	}
	b := m.barrier()
	var cs *rSub
	r := m.solve(cond, s, b, func(s2 *rSub) rOut { cs = s2; return rOut{kind: rCond, cutTo: b} })
	switch {
	case r.kind == rCond && r.cutTo == b:
		return m.solve(then, cs, cutB, k)
	case r.kind == rFail, r.kind == rCut && r.cutTo == b:
		return m.solve(els, s, cutB, k)
	}
	return r
}

func (m *rM) catch(goal, catcher, recovery Term, s *rSub, k rK) rOut {
	id := m.barrier()
	g := rDeref(goal, s)
	var r rOut
	if _, ok := g.(Variable); ok {
		r = rInstErr()
	} else if !rCallableBody(g, s) {
		r = rTypeErr(rAtomCallable, rResolve(g, s))
	} else {
		r = m.solve(g, s, id, func(s2 *rSub) rOut {
			r2 := k(s2)
			if r2.kind == rThrow {
				// raised after Goal exited: this catch/3 is no longer active for it
				r2.pass = append(append([]int{}, r2.pass...), id)
			}
			return r2
		})
	}
	switch r.kind {
	case rCut:
		if r.cutTo == id {
			return rOut{kind: rFail}
		}
		return r
	case rThrow:
		if n := len(r.pass); n > 0 && r.pass[n-1] == id {
			r.pass = r.pass[:n-1]
			return r
		}
		s2, ok := rUnify(catcher, r.ball, s) // s: bindings made since the catch/3 call are undone
		if !ok {
			return r
		}
		return m.callGoal(recovery, s2, k)
	}
	return r
}

func (m *rM) findall(tmpl, goal, inst Term, s *rSub, k rK) rOut {
	// instances must be a partial list or a list
	if _, ok, partial := rListElems(inst, s); !ok && !partial {
		return rTypeErr(xList, rResolve(inst, s))
	}
	var results []Term
	g := rDeref(goal, s)
	if _, ok := g.(Variable); ok {
		return rInstErr()
	}
	if !rCallableBody(g, s) {
		return rTypeErr(rAtomCallable, rResolve(g, s))
	}
	switch g.(type) {
	case Atom, Compound:
	default:
		return rTypeErr(rAtomCallable, g)
	}
	b := m.barrier()
	r := m.solve(g, s, b, func(s2 *rSub) rOut {
		results = append(results, rCopy(tmpl, s2, &rRename{}))
		return rOut{kind: rFail}
	})
	if r.kind != rFail && !(r.kind == rCut && r.cutTo == b) {
		return r
	}
	s2, ok := rUnify(inst, rList(results), s)
	if !ok {
		return rOut{kind: rFail}
	}
	return k(s2)
}

// eval: integer + - * on small expression trees (enough for the skeletons); errors per ISO 9.
func (m *rM) eval(e Term, s *rSub) (Term, rOut, bool) {
	e = rDeref(e, s)
	switch x := e.(type) {
	case Variable:
		return nil, rInstErr(), false
	case Integer:
		return x, rOut{}, true
	case Float:
		return x, rOut{}, true
	case Atom:
		return nil, rTypeErr(rAtomEvaluable, xSlash.Apply(x, Integer(0))), false
	case Compound:
		if x.Arity() == 2 && (x.Functor() == xPlus || x.Functor() == xMinus || x.Functor() == xAsterisk) {
			a, out, ok := m.eval(x.Arg(0), s)
			if !ok {
				return nil, out, false
			}
			b, out, ok := m.eval(x.Arg(1), s)
			if !ok {
				return nil, out, false
			}
			ai, aok := a.(Integer)
			bi, bok := b.(Integer)
			if aok && bok {
				switch x.Functor() {
				case xPlus:
					return ai + bi, rOut{}, true
				case xMinus:
					return ai - bi, rOut{}, true
				default:
					return ai * bi, rOut{}, true
				}
			}
		}
		return nil, rTypeErr(rAtomEvaluable, xSlash.Apply(x.Functor(), Integer(x.Arity()))), false
	}
	return nil, rTypeErr(rAtomEvaluable, e), false
}

// ---- database predicates ----

func (m *rM) clauseArg(cl Term, s *rSub) (head, body Term, out rOut, ok bool) {
	cl = rDeref(cl, s)
	if _, isVar := cl.(Variable); isVar {
		return nil, nil, rInstErr(), false
	}
	head, body = rHeadBody(cl)
	head = rDeref(head, s)
	switch head.(type) {
	case Variable:
		return nil, nil, rInstErr(), false
	case Atom, Compound:
	default:
		return nil, nil, rTypeErr(rAtomCallable, head), false
	}
	return head, body, rOut{}, true
}

func (m *rM) assert(cl Term, front bool, s *rSub, k rK) rOut {
	head, body, out, ok := m.clauseArg(cl, s)
	if !ok {
		return out
	}
	if !rCallableBody(body, s) {
		return rTypeErr(rAtomCallable, rResolve(body, s))
	}
	name, arity, _ := rNameArity(head)
	if p := m.db.find(name, arity); p != nil && !p.dynamic {
		return rErr(rAtomPermission.Apply(rAtomModify, rAtomStaticProc, xSlash.Apply(name, Integer(arity))))
	}
	stored := rCopy(xIf.Apply(head, body), s, &rRename{})
	m.db.add(stored, front, true)
	return k(s)
}

func (m *rM) retract(cl Term, s *rSub, k rK) rOut {
	head, body, out, ok := m.clauseArg(cl, s)
	if !ok {
		return out
	}
	name, arity, _ := rNameArity(head)
	p := m.db.find(name, arity)
	if p == nil {
		return rOut{kind: rFail}
	}
	if !p.dynamic {
		return rErr(rAtomPermission.Apply(rAtomModify, rAtomStaticProc, xSlash.Apply(name, Integer(arity))))
	}
	for _, c := range p.snapshot() {
		ren := &rRename{}
		h := rCopy(c.head, nil, ren)
		b := rCopy(c.body, nil, ren)
		s2, ok := rUnify(head, h, s)
		if !ok {
			continue
		}
		s2, ok = rUnify(body, b, s2)
		if !ok {
			continue
		}
		if c.died != 0 {
			// a clause of the call-time snapshot that a nested operation has already removed: it is removed at
			// most once; whether this redo still succeeds is left open by ISO 8.9.3 -> both variants are offered
			m.sawRemovedMatch = true
			if !m.redoSucceedsOnRemoved {
				continue
			}
		} else {
			m.db.gen++
			c.died = m.db.gen
		}
		r := k(s2)
		if r.kind != rFail {
			return r
		}
	}
	return rOut{kind: rFail}
}

func (m *rM) clause(head, body Term, s *rSub, k rK) rOut {
	h := rDeref(head, s)
	switch h.(type) {
	case Variable:
		return rInstErr()
	case Atom, Compound:
	default:
		return rTypeErr(rAtomCallable, h)
	}
	name, arity, _ := rNameArity(h)
	p := m.db.find(name, arity)
	if p == nil {
		return rOut{kind: rFail}
	}
	for _, c := range p.snapshot() {
		ren := &rRename{}
		ch := rCopy(c.head, nil, ren)
		cb := rCopy(c.body, nil, ren)
		s2, ok := rUnify(h, ch, s)
		if !ok {
			continue
		}
		s2, ok = rUnify(body, cb, s2)
		if !ok {
			continue
		}
		r := k(s2)
		if r.kind != rFail {
			return r
		}
	}
	return rOut{kind: rFail}
}

// ---- top level ----

type rRun struct {
	answers [][]Term // one row of resolved query-variable values per answer
	status  string   // "exhausted" | "stopped" | "error" | "budget"
	ball    Term
	trace   []Term
}

// run solves goal and reports up to maxAnswers answers as the values of vars.
func (m *rM) run(goal Term, vars []Variable) rRun {
	var out rRun
	r := m.callGoal(goal, nil, func(s *rSub) rOut {
		row := make([]Term, len(vars))
		for i, v := range vars {
			row[i] = rResolve(v, s)
		}
		out.answers = append(out.answers, row)
		if len(out.answers) >= m.maxAnswers {
			return rOut{kind: rStop}
		}
		return rOut{kind: rFail}
	})
	switch r.kind {
	case rFail, rCut, rCond:
		out.status = "exhausted"
	case rStop:
		out.status = "stopped"
	case rThrow:
		out.status = "error"
		out.ball = r.ball
	case rBudget:
		out.status = "budget"
	}
	out.trace = m.trace
	return out
}

// ---- bagof / setof ----

// rVariant: a and b (both fully resolved, no substitution) are equal up to a bijective renaming of variables.
func rVariant(a, b Term, ab, ba *rRename) bool {
	switch x := a.(type) {
	case Variable:
		y, ok := b.(Variable)
		if !ok {
			return false
		}
		for i, f := range ab.from {
			if f == x {
				return ab.to[i] == y
			}
		}
		for i, f := range ba.from {
			if f == y {
				return ba.to[i] == x
			}
		}
		ab.from, ab.to = append(ab.from, x), append(ab.to, y)
		ba.from, ba.to = append(ba.from, y), append(ba.to, x)
		return true
	case Compound:
		y, ok := b.(Compound)
		if !ok || x.Arity() != y.Arity() || x.Functor() != y.Functor() {
			return false
		}
		for i := 0; i < x.Arity(); i++ {
			if !rVariant(x.Arg(i), y.Arg(i), ab, ba) {
				return false
			}
		}
		return true
	}
	if _, ok := b.(Variable); ok {
		return false
	}
	if _, ok := b.(Compound); ok {
		return false
	}
	return a == b
}

func rIsVariant(a, b Term) bool { return rVariant(a, b, &rRename{}, &rRename{}) }

func (m *rM) bagof(tmpl, goal, inst Term, set bool, s *rSub, k rK) rOut {
	if _, ok, partial := rListElems(inst, s); !ok && !partial {
		return rTypeErr(xList, rResolve(inst, s))
	}
	// strip V^ prefixes
	g := rDeref(goal, s)
	var exVars []Variable
	for {
		c, ok := g.(Compound)
		if !ok || c.Functor() != xCaret || c.Arity() != 2 {
			break
		}
		exVars = rVars(c.Arg(0), s, exVars)
		g = rDeref(c.Arg(1), s)
	}
	if _, ok := g.(Variable); ok {
		return rInstErr()
	}
	switch g.(type) {
	case Atom, Compound:
	default:
		return rTypeErr(rAtomCallable, g)
	}
	if !rCallableBody(g, s) {
		return rTypeErr(rAtomCallable, rResolve(g, s))
	}
	bound := rVars(tmpl, s, exVars)
	var free []Variable
	for _, v := range rVars(g, s, nil) {
		isBound := false
		for _, b := range bound {
			if b == v {
				isBound = true
			}
		}
		if !isBound {
			free = append(free, v)
		}
	}
	wit := make([]Term, len(free))
	for i, v := range free {
		wit[i] = v
	}
	witness := rList(wit)
	pairT := xMinus.Apply(witness, tmpl)
	var pairs []Term
	b := m.barrier()
	r := m.solve(g, s, b, func(s2 *rSub) rOut {
		pairs = append(pairs, rCopy(pairT, s2, &rRename{}))
		return rOut{kind: rFail}
	})
	if r.kind != rFail && !(r.kind == rCut && r.cutTo == b) {
		return r
	}
	if len(pairs) == 0 {
		return rOut{kind: rFail}
	}
	done := make([]bool, len(pairs))
	for i := range pairs {
		if done[i] {
			continue
		}
		wi := pairs[i].(Compound).Arg(0)
		var items []Term
		s2 := s
		ok := true
		for j := i; j < len(pairs); j++ {
			if done[j] {
				continue
			}
			wj := pairs[j].(Compound).Arg(0)
			if !rIsVariant(wi, wj) {
				continue
			}
			done[j] = true
			s2, ok = rUnify(wi, wj, s2) // variant witnesses are unified with each other
			if !ok {
				break
			}
			items = append(items, pairs[j].(Compound).Arg(1))
		}
		if !ok {
			continue
		}
		if set {
			items = rSortDedupe(items, s2)
		}
		s3, ok := rUnify(witness, wi, s2)
		if !ok {
			continue
		}
		s3, ok = rUnify(inst, rList(items), s3)
		if !ok {
			continue
		}
		r := k(s3)
		if r.kind != rFail {
			return r
		}
	}
	return rOut{kind: rFail}
}

// rSortDedupe: ascending, duplicate-free under the reference order (insertion sort).
func rSortDedupe(items []Term, s *rSub) []Term {
	var out []Term
	for _, it := range items {
		pos := len(out)
		dup := false
		for i, o := range out {
			c := rCompare(it, o, s)
			if c == 0 {
				dup = true
				break
			}
			if c < 0 {
				pos = i
				break
			}
		}
		if dup {
			continue
		}
		out = append(out, nil)
		copy(out[pos+1:], out[pos:])
		out[pos] = it
	}
	return out
}


func (m *rM) retractall(head Term, s *rSub, k rK) rOut {
	h := rDeref(head, s)
	switch h.(type) {
	case Variable:
		return rInstErr()
	case Atom, Compound:
	default:
		return rTypeErr(rAtomCallable, h)
	}
	name, arity, _ := rNameArity(h)
	p := m.db.find(name, arity)
	if p == nil {
		return k(s)
	}
	if !p.dynamic {
		return rErr(rAtomPermission.Apply(rAtomModify, rAtomStaticProc, xSlash.Apply(name, Integer(arity))))
	}
	for _, c := range p.snapshot() {
		ch := rCopy(c.head, nil, &rRename{})
		if _, ok := rUnify(h, ch, s); ok && c.died == 0 {
			m.db.gen++
			c.died = m.db.gen
		}
	}
	return k(s)
}

func (m *rM) abolish(pi Term, s *rSub, k rK) rOut {
	t := rDeref(pi, s)
	c, ok := t.(Compound)
	if _, isVar := t.(Variable); isVar {
		return rInstErr()
	}
	if !ok || c.Functor() != xSlash || c.Arity() != 2 {
		return rTypeErr(rAtomPredInd, t)
	}
	name, nok := rDeref(c.Arg(0), s).(Atom)
	arity, aok := rDeref(c.Arg(1), s).(Integer)
	if !nok || !aok {
		return rInstErr()
	}
	p := m.db.find(name, int(arity))
	if p == nil || !p.dynamic {
		return rErr(rAtomPermission.Apply(rAtomModify, rAtomStaticProc, xSlash.Apply(name, arity)))
	}
	m.db.gen++
	for _, cl := range p.clauses {
		if cl.died == 0 {
			cl.died = m.db.gen
		}
	}
	for i, q := range m.db.preds {
		if q == p {
			m.db.preds = append(m.db.preds[:i:i], m.db.preds[i+1:]...)
			break
		}
	}
	return k(s)
}

// clone returns an independent copy of the database (clauses are immutable terms; records are copied).
func (db *rDB) clone() *rDB {
	out := &rDB{gen: db.gen}
	for _, p := range db.preds {
		q := &rPred{name: p.name, arity: p.arity, dynamic: p.dynamic}
		for _, c := range p.clauses {
			cc := *c
			q.clauses = append(q.clauses, &cc)
		}
		out.preds = append(out.preds, q)
	}
	return out
}

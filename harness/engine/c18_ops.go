//go:build verif

package engine

// C18 — the operator table evolves as op/3 defines; failed updates change nothing.

import (
	"bytes"
	"context"
	"strings"
)

type c18Entry struct {
	prio Integer
	spec Atom
}

// c18Model: name -> class (0 prefix, 1 infix, 2 postfix) -> entry; the reference ISO 8.14.3/8.14.4 table for the
// names of the pool. Entries of other names (bootstrap operators) are never touched by the harness.
type c18Model struct {
	names []Atom
	tab   [][3]*c18Entry
}

func (m *c18Model) idx(a Atom) int {
	for i, n := range m.names {
		if n == a {
			return i
		}
	}
	m.names = append(m.names, a)
	m.tab = append(m.tab, [3]*c18Entry{})
	return len(m.names) - 1
}

func c18Class(spec Atom) int {
	switch spec.String() {
	case "fx", "fy":
		return 0
	case "xfx", "xfy", "yfx":
		return 1
	case "xf", "yf":
		return 2
	}
	return -1
}

var c18Specs = []string{"fx", "fy", "xfx", "xfy", "yfx", "xf", "yf"}

var (
	c18Foo = NewAtom("foo")
	c18Bar = NewAtom("bar")
)

// c18Name draws the third argument of op/3. Returns the term, the atoms it names (nil on invalid), and the
// admissible error kinds ("" none).
func c18Name(tag string, restricted bool) (Term, []Atom, string) {
	var sel int
	if restricted {
		sel = []int{0, 7, 4, 1}[choice("name"+tag, 4)]
	} else {
		sel = choice("name"+tag, 11)
	}
	switch sel {
	case 0:
		return c18Foo, []Atom{c18Foo}, ""
	case 1:
		return c18Bar, []Atom{c18Bar}, ""
	case 2:
		return xPlus, []Atom{xPlus}, ""
	case 3:
		return xComma, []Atom{xComma}, ""
	case 4:
		return NewAtom("|"), []Atom{NewAtom("|")}, ""
	case 5:
		return xEmptyList, []Atom{xEmptyList}, ""
	case 6:
		return NewAtom("{}"), []Atom{NewAtom("{}")}, ""
	case 7:
		return List(c18Foo, c18Bar), []Atom{c18Foo, c18Bar}, ""
	case 8:
		return List(c18Foo, Integer(1)), nil, "type_error"
	case 9:
		return PartialList(NewVariable(), c18Foo), nil, "instantiation_error"
	}
	return List(c18Bar, xComma), []Atom{c18Bar, xComma}, ""
}

// c18Apply applies op(P, Spec, Names) to the model; returns the set of admissible outcomes ("ok" or error kinds).
func (m *c18Model) apply(p int64, pValid bool, spec Atom, specKind string, names []Atom, nameErr string) []string {
	var errs []string
	if specKind != "" {
		errs = append(errs, specKind)
	}
	if nameErr != "" {
		errs = append(errs, nameErr)
	}
	if !pValid {
		errs = append(errs, "domain_error")
	}
	if len(errs) == 0 {
		class := c18Class(spec)
		for _, n := range names {
			i := m.idx(n)
			switch {
			case n == xComma:
				errs = append(errs, "permission_error")
			case n.String() == "|":
				if class != 1 || (p > 0 && p < 1001) {
					errs = append(errs, "permission_error")
				}
			case n == xEmptyList || n.String() == "{}":
				errs = append(errs, "permission_error")
			}
			if class == 1 && m.tab[i][2] != nil || class == 2 && m.tab[i][1] != nil {
				errs = append(errs, "permission_error")
			}
		}
	}
	if len(errs) > 0 {
		return errs
	}
	class := c18Class(spec)
	for _, n := range names {
		i := m.idx(n)
		if p == 0 {
			m.tab[i][class] = nil
		} else {
			m.tab[i][class] = &c18Entry{prio: Integer(p), spec: spec}
		}
	}
	return []string{"ok"}
}

func c18ErrKind(err error) string {
	if err == nil {
		return "ok"
	}
	ex, ok := err.(Exception)
	if !ok {
		return "go-error"
	}
	f := vFormal(vPlain(ex.Term(), nil))
	switch x := f.(type) {
	case Atom:
		return x.String()
	case Compound:
		return x.Functor().String()
	}
	return "other"
}

func c18Snapshot(vm *VM) map[Atom][_operatorClassLen]operator {
	out := map[Atom][_operatorClassLen]operator{}
	for k, v := range vm.operators {
		out[k] = v
	}
	return out
}

func c18SameTable(a, b map[Atom][_operatorClassLen]operator) bool {
	if len(a) != len(b) {
		return false
	}
	ok := true
	for k, v := range a {
		w, present := b[k]
		if !present {
			return false
		}
		for c := range v {
			ok = bAnd(ok, bAnd(v[c].priority == w[c].priority, bAnd(v[c].specifier == w[c].specifier, v[c].name == w[c].name)))
		}
	}
	return ok
}

type c18Ans struct {
	p    Term
	s, n Term
}

func c18CurrentOp(vm *VM, p, s, n Term) ([]c18Ans, error) {
	var out []c18Ans
	_, err := CurrentOp(vm, p, s, n, func(e *Env) *Promise {
		out = append(out, c18Ans{e.Resolve(p), e.Resolve(s), e.Resolve(n)})
		return Bool(false)
	}, nil).Force(context.Background())
	return out, err
}

// VH_C18: inst 0: one call, full menus; 1: two calls, restricted menus; 2: two calls, full menus (thorough);
// 3: three calls, restricted menus (thorough); 4: two calls, restricted menus, the second on foo with {fx, xfx, yf} (quick).
func VH_C18(vm *VM, inst int) {
	restricted := inst == 1 || inst == 3 || inst == 4
	ncalls := []int{1, 2, 2, 3, 2}[inst]
	m := &c18Model{}
	touched := map[Atom]bool{}
	// the pool's names as the bootstrap table defines them
	for _, n := range []Atom{c18Foo, c18Bar, xPlus, xComma, NewAtom("|"), xEmptyList, NewAtom("{}")} {
		i := m.idx(n)
		for _, o := range vm.operators[n] {
			if o != (operator{}) {
				sp := o.specifier.term().(Atom)
				m.tab[i][c18Class(sp)] = &c18Entry{prio: o.priority, spec: sp} // class derived from the specifier's name
			}
		}
	}
	base, err := c18CurrentOp(vm, NewVariable(), NewVariable(), NewVariable())
	verify(err == nil, "current_op/3 raised an error on the bootstrap table")
	baseline := 0
	for _, a := range base {
		inPool := false
		for _, n := range m.names {
			if a.n == Term(n) {
				inPool = true
			}
		}
		if !inPool {
			baseline++
		}
	}
	for step := 0; step < ncalls; step++ {
		tag := string(rune('0' + step))
		var p int64
		if inst == 4 && step == 0 {
			// quick two-call family: the first call's priority is case-split over the classes, the second is symbolic
			p = []int64{0, 200, 1001}[choice("prio"+tag, 3)]
		} else {
			p = nondetInt64("prio" + tag)
		}
		var specT Term
		var spec Atom
		specKind := ""
		sc := 0
		narrow := inst == 4 && step == 1
		if narrow {
			sc = []int{0, 2, 6}[choice("spec"+tag, 3)]
		} else if restricted {
			sc = []int{0, 2, 5, 6, 7}[choice("spec"+tag, 5)]
		} else {
			sc = choice("spec"+tag, 10)
		}
		switch {
		case sc < 7:
			spec = NewAtom(c18Specs[sc])
			specT = spec
		case sc == 7:
			specT, specKind = NewAtom("foo"), "domain_error"
		case sc == 8:
			specT, specKind = Integer(1), "type_error"
		default:
			specT, specKind = NewVariable(), "instantiation_error"
		}
		nameT, names, nameErr := c18Name(tag, restricted)
		if narrow {
			// second call of the quick family: foo or [foo, bar]
			_, isList := nameT.(Compound)
			assume(nameT == Term(c18Foo) || (isList && len(names) == 2))
		}
		for _, n := range names {
			touched[n] = true
		}
		before := c18Snapshot(vm)
		_, err := Op(vm, Integer(p), specT, nameT, Success, nil).Force(context.Background())
		got := c18ErrKind(err)
		pValid := decide(bAnd(p >= 0, p <= 1200))
		want := m.apply(p, pValid, spec, specKind, names, nameErr)
		okKind := false
		for _, w := range want {
			if w == got {
				okKind = true
			}
		}
		if !okKind {
			note("got", got)
			note("want", strings.Join(want, "|"))
		}
		verify(okKind, "op/3: outcome differs from ISO 8.14.3 (success vs error class)")
		if got != "ok" {
			verify(c18SameTable(before, c18Snapshot(vm)), "op/3 raised an error but changed the operator table")
			reach("c18/error-leaves-table", true)
		} else {
			reach("c18/ok", true)
		}
	}
	// current_op/3 enumerates exactly the model, in every instantiation pattern
	all, err := c18CurrentOp(vm, NewVariable(), NewVariable(), NewVariable())
	verify(err == nil, "current_op/3 raised an error")
	others := 0
	for _, a := range all {
		i := -1
		for k, n := range m.names {
			if a.n == Term(n) {
				i = k
			}
		}
		if i < 0 {
			others++
			continue
		}
		sa, isAtom := a.s.(Atom)
		verify(isAtom, "current_op/3: specifier is not an atom")
		c := c18Class(sa)
		verify(c >= 0, "current_op/3: invalid specifier")
		e := m.tab[i][c]
		verify(e != nil, "current_op/3 reports an operator that should not exist (removed, or never defined)")
		if e != nil {
			verify(bAnd(a.p == Term(e.prio), sa == e.spec), "current_op/3 reports a different priority/specifier than the latest definition")
		}
	}
	verify(others == baseline, "operators of other names changed")
	for i, n := range m.names {
		if !touched[n] {
			continue // untouched names are covered by the full enumeration above
		}
		for c := 0; c < 3; c++ {
			e := m.tab[i][c]
			// pattern (P, S, +name)
			ans, err := c18CurrentOp(vm, NewVariable(), NewVariable(), n)
			verify(err == nil, "current_op(P, S, name) raised an error")
			cnt := 0
			for _, a := range ans {
				if c18Class(a.s.(Atom)) == c {
					cnt++
				}
			}
			if e == nil {
				verify(cnt == 0, "current_op(P, S, name) reports a removed/undefined operator")
				continue
			}
			verify(cnt == 1, "current_op(P, S, name): not exactly one definition per name and class")
			// fully instantiated and partially instantiated patterns
			for pat := 0; pat < 4; pat++ {
				var pp, ss Term = NewVariable(), NewVariable()
				if pat&1 != 0 {
					pp = e.prio
				}
				if pat&2 != 0 {
					ss = e.spec
				}
				if pv, ok := pp.(Integer); ok && !decide(bAnd(pv >= 0, pv <= 1200)) {
					continue
				}
				a1, err := c18CurrentOp(vm, pp, ss, n)
				verify(err == nil, "current_op raised an error for a valid pattern")
				hit := 0
				for _, a := range a1 {
					if decide(bAnd(a.p == Term(e.prio), a.s == Term(e.spec))) {
						hit++
					}
				}
				verify(hit == 1, "current_op: instantiating further arguments loses or duplicates the answer")
				if pat&1 != 0 {
					// a bound priority with an unbound name would compare the symbolic priority with every entry of the
					// table (one fork per bootstrap operator); the name-bound pattern above covers the priority argument
					continue
				}
				a2, err := c18CurrentOp(vm, pp, ss, NewVariable())
				verify(err == nil, "current_op raised an error for a valid pattern")
				hit = 0
				for _, a := range a2 {
					if a.n == Term(n) && decide(bAnd(a.p == Term(e.prio), a.s == Term(e.spec))) {
						hit++
					}
				}
				verify(hit == 1, "current_op with unbound name: loses or duplicates the answer")
			}
		}
	}
	// a bound specifier selects by the specifier itself, not by its class: for every touched name of the pool (and +) and each of the 7 specifiers, current_op(P, Spec, Name) answers iff the table has exactly that specifier
	for i, n := range m.names {
		if !touched[n] && n != xPlus {
			continue // + stands for the names the history did not touch (prefix fy and infix yfx in the bootstrap table)
		}
		for _, sn := range c18Specs {
			sp := NewAtom(sn)
			ans, err := c18CurrentOp(vm, NewVariable(), sp, n)
			verify(err == nil, "current_op(P, spec, name) raised an error")
			e := m.tab[i][c18Class(sp)]
			if e != nil && decide(e.spec == sp) {
				verify(len(ans) == 1 && decide(ans[0].p == Term(e.prio)), "current_op(P, spec, name) does not report the definition with that specifier")
			} else {
				verify(len(ans) == 0, "current_op(P, spec, name) answers for a specifier the name is not defined with")
			}
		}
	}
	// reading and writing use exactly that table (name foo)
	fi := m.idx(c18Foo)
	c18ReadWrite(vm, m.tab[fi])
	reach("c18/done", true)
}

func c18ReadWrite(vm *VM, e [3]*c18Entry) {
	parse := func(text string) (Term, error) {
		p := NewParser(vm, strings.NewReader(text))
		return p.Term()
	}
	a, b := NewAtom("a"), NewAtom("b")
	t, err := parse("a foo b.")
	if e[1] != nil {
		verify(err == nil, "reader does not accept the infix operator of the table")
		verify(vIdenticalV(t, c18Foo.Apply(a, b)), "reader builds a different term for the infix operator")
	} else if e[2] == nil {
		verify(err != nil, "reader accepts 'a foo b' although foo is not an infix operator")
	}
	t, err = parse("foo a.")
	if e[0] != nil {
		verify(err == nil, "reader does not accept the prefix operator of the table")
		verify(vIdenticalV(t, c18Foo.Apply(a)), "reader builds a different term for the prefix operator")
	} else {
		verify(err != nil, "reader accepts 'foo a' although foo is not a prefix operator")
	}
	t, err = parse("a foo.")
	if e[2] != nil {
		verify(err == nil, "reader does not accept the postfix operator of the table")
		verify(vIdenticalV(t, c18Foo.Apply(a)), "reader builds a different term for the postfix operator")
	} else {
		verify(err != nil, "reader accepts 'a foo' although foo is not a postfix operator")
	}
	// associativity is that of the specifier in the table: a foo b foo c
	if e[1] != nil && e[0] == nil && e[2] == nil {
		c := NewAtom("c")
		t, err = parse("a foo b foo c.")
		switch {
		case decide(e[1].spec == NewAtom("xfx")):
			verify(err != nil, "reader accepts 'a foo b foo c' although foo is xfx (not associative)")
		case decide(e[1].spec == NewAtom("yfx")):
			verify(err == nil && decide(vIdenticalV(t, c18Foo.Apply(c18Foo.Apply(a, b), c))), "reader does not read 'a foo b foo c' as (a foo b) foo c for yfx")
		case decide(e[1].spec == NewAtom("xfy")):
			verify(err == nil && decide(vIdenticalV(t, c18Foo.Apply(a, c18Foo.Apply(b, c)))), "reader does not read 'a foo b foo c' as a foo (b foo c) for xfy")
		}
	}
	// a postfix operator's specifier decides whether it can be applied twice: a foo foo
	if e[2] != nil && e[0] == nil && e[1] == nil {
		t, err = parse("a foo foo.")
		if decide(e[2].spec == NewAtom("xf")) {
			verify(err != nil, "reader accepts 'a foo foo' although foo is xf")
		} else {
			verify(err == nil && decide(vIdenticalV(t, c18Foo.Apply(c18Foo.Apply(a)))), "reader does not read 'a foo foo' as foo(foo(a)) for yf")
		}
		// and it is an operand of priority P for what follows: a foo = b needs P <= 699
		t, err = parse("a foo = b.")
		if pi, ok := Term(e[2].prio).(Integer); ok {
			if decide(pi <= 699) {
				verify(err == nil && decide(vIdenticalV(t, xEqual.Apply(c18Foo.Apply(a), b))), "reader does not read 'a foo = b' as (a foo) = b")
			} else {
				verify(err != nil, "reader accepts 'a foo = b' although the postfix term's priority exceeds 699")
			}
		}
	}
	// writer: foo(a, b) is written in operator notation iff foo is infix
	var buf bytes.Buffer
	s := NewOutputTextStream(&buf)
	_, werr := WriteTerm(vm, s, c18Foo.Apply(a, b), List(atomQuoted.Apply(atomTrue)), Success, nil).Force(context.Background())
	verify(werr == nil, "write_term raised an error")
	out := buf.String()
	if e[1] != nil {
		verify(out == "a foo b", "writer does not use the infix operator of the table: "+out)
	} else {
		verify(out == "foo(a,b)", "writer uses operator notation for a non-operator: "+out)
	}
}

//go:build verif

package engine

// C07 — arithmetic is exact or raises an evaluation error; comparisons are numeric.
// Every harness goes through eval(), so the functor table, the type dispatch, the kernels and the
// exceptionalValue -> evaluation_error conversion are all on the executed path.

import "math"

func init() {
	vHarnesses["H_C07_intBV"] = H_C07_intBV
	vHarnesses["H_C07_intNL"] = H_C07_intNL
	vHarnesses["H_C07_pow"] = H_C07_pow
	vHarnesses["H_C07_mulIContract"] = H_C07_mulIContract
	vHarnesses["H_C07_float"] = H_C07_float
	vHarnesses["H_C07_f2i"] = H_C07_f2i
	vHarnesses["H_C07_cmp"] = H_C07_cmp
	vHarnesses["H_C07_mixed"] = H_C07_mixed
	vHarnesses["H_C07_expr"] = H_C07_expr
}

// kfAddF: addF/subF report float_overflow when the exact sum exceeds MaxFloat64 but the IEEE sum rounds to
// +-MaxFloat64 (finite). Pinned by number_test.go ("1.0 + maxFloat"), so it cannot be repaired without editing the suite.
const kfAddF = "C07/addF-overflow-when-sum-rounds-to-maxfloat"

const (
	evNone = iota
	evIntOverflow
	evZeroDivisor
	evFloatOverflow
	evUnderflow
	evUndefined
	evTypeError
	evOther
)

// classifyEvalErr maps the error returned by eval to a class; the error must be an Exception.
func classifyEvalErr(err error) int {
	if err == nil {
		return evNone
	}
	ex, ok := err.(Exception)
	if !ok {
		return evOther
	}
	c, ok := ex.Term().(Compound)
	if !ok || c.Functor() != atomError || c.Arity() != 2 {
		return evOther
	}
	f, ok := c.Arg(0).(Compound)
	if !ok {
		return evOther
	}
	switch {
	case f.Functor() == atomEvaluationError && f.Arity() == 1:
		switch f.Arg(0) {
		case atomIntOverflow:
			return evIntOverflow
		case atomZeroDivisor:
			return evZeroDivisor
		case atomFloatOverflow:
			return evFloatOverflow
		case atomUnderflow:
			return evUnderflow
		case atomUndefined:
			return evUndefined
		}
		return evOther
	case f.Functor() == atomTypeError && f.Arity() == 2:
		return evTypeError
	}
	return evOther
}

func evalGuard(t Term) (n Number, err error, panicked bool) {
	defer func() {
		if r := recover(); r != nil {
			panicked = true
		}
	}()
	n, err = eval(t, nil)
	return
}

// intResult asserts that (n, err) is "the exact value `exact` if it fits in 64 bits, else int_overflow".
func intResult(what string, n Number, err error, exact W) {
	cls := classifyEvalErr(err)
	if cls == evNone {
		r, ok := n.(Integer)
		verify(ok, what+": result is not an Integer")
		verify(bAnd(wFits64(exact), wEq(wI(int64(r)), exact)), what+": result differs from the exact value")
		reach(what+"/value", true)
	} else {
		verify(cls == evIntOverflow, what+": unexpected error class")
		verify(bNot(wFits64(exact)), what+": int_overflow although the exact result fits")
		reach(what+"/overflow", true)
	}
}

var c07BVNames = []string{"+", "-", "neg", "abs", "sign", "min", "max", "\\", "/\\", "\\/", "xor", ">>", "<<", "+u"}

// H_C07_intBV: integer functors whose code is linear (bit-vector encoding, full 64-bit width).
func H_C07_intBV(inst int) {
	x := nondetInt64("x")
	y := nondetInt64("y")
	X, Y := Integer(x), Integer(y)
	name := c07BVNames[inst]
	switch name {
	case "+":
		n, err := eval(atomPlus.Apply(X, Y), nil)
		intResult("add", n, err, wAdd(wI(x), wI(y)))
	case "-":
		n, err := eval(atomMinus.Apply(X, Y), nil)
		intResult("sub", n, err, wSub(wI(x), wI(y)))
	case "neg":
		n, err := eval(atomMinus.Apply(X), nil)
		intResult("neg", n, err, wNeg(wI(x)))
	case "abs":
		n, err := eval(atomAbs.Apply(X), nil)
		intResult("abs", n, err, wAbs(wI(x)))
	case "sign":
		n, err := eval(atomSign.Apply(X), nil)
		verify(err == nil, "sign: error")
		r := int64(n.(Integer))
		verify(bAnd(bIff(r == 1, x > 0), bAnd(bIff(r == -1, x < 0), bIff(r == 0, x == 0))), "sign: wrong value")
	case "min":
		n, err := eval(atomMin.Apply(X, Y), nil)
		verify(err == nil, "min: error")
		r := int64(n.(Integer))
		verify(bAnd(bAnd(r <= x, r <= y), bOr(r == x, r == y)), "min: wrong value")
	case "max":
		n, err := eval(atomMax.Apply(X, Y), nil)
		verify(err == nil, "max: error")
		r := int64(n.(Integer))
		verify(bAnd(bAnd(r >= x, r >= y), bOr(r == x, r == y)), "max: wrong value")
	case "\\":
		n, err := eval(atomBackSlash.Apply(X), nil)
		verify(err == nil, "\\: error")
		verify(int64(n.(Integer)) == -x-1, "\\: wrong value")
	case "/\\":
		n, err := eval(atomBitwiseAnd.Apply(X, Y), nil)
		verify(err == nil, "/\\: error")
		verify(int64(n.(Integer)) == x&y, "/\\: wrong value")
	case "\\/":
		n, err := eval(atomBitwiseOr.Apply(X, Y), nil)
		verify(err == nil, "\\/: error")
		verify(int64(n.(Integer)) == x|y, "\\/: wrong value")
	case "xor":
		n, err := eval(atomXor.Apply(X, Y), nil)
		verify(err == nil, "xor: error")
		verify(int64(n.(Integer)) == x^y, "xor: wrong value")
	case ">>":
		// property: shifts by 0..63; any other amount must at least not panic (C05) - checked separately
		assume(bAnd(y >= 0, y <= 63))
		n, err := eval(atomBitwiseRightShift.Apply(X, Y), nil)
		verify(err == nil, ">>: error")
		// floor(x / 2^y): r*2^y <= x < (r+1)*2^y, stated on 128-bit values with the shift done in the spec
		r := int64(n.(Integer))
		verify(bAnd(wLe(wShl(wI(r), y), wI(x)), wLt(wI(x), wShl(wAdd(wI(r), wI(1)), y))), ">>: wrong value")
	case "<<":
		assume(bAnd(y >= 0, y <= 63))
		exact := wShl(wI(x), y)
		assume(wFits64(exact)) // the property covers shifts "that do not overflow"
		n, err := eval(atomBitwiseLeftShift.Apply(X, Y), nil)
		verify(err == nil, "<<: error")
		verify(wEq(wI(int64(n.(Integer))), exact), "<<: wrong value")
	case "+u":
		n, err := eval(atomPlus.Apply(X), nil)
		verify(err == nil, "+/1: error")
		verify(int64(n.(Integer)) == x, "+/1: wrong value")
	}
}

var c07NLNames = []string{"*", "//", "rem", "mod", "div"}

// H_C07_intNL: functors with non-linear code (multiplication / division); integer encoding, cvc5.
func H_C07_intNL(inst int) {
	x := nondetInt64("x")
	y := nondetInt64("y")
	X, Y := Integer(x), Integer(y)
	name := c07NLNames[inst]
	if name == "*" {
		n, err := eval(atomAsterisk.Apply(X, Y), nil)
		intResult("mul", n, err, wMul(wI(x), wI(y)))
		return
	}
	var n Number
	var err error
	switch name {
	case "//":
		n, err = eval(atomSlashSlash.Apply(X, Y), nil)
	case "rem":
		n, err = eval(atomRem.Apply(X, Y), nil)
	case "mod":
		n, err = eval(atomMod.Apply(X, Y), nil)
	case "div":
		n, err = eval(atomDiv.Apply(X, Y), nil)
	}
	cls := classifyEvalErr(err)
	if cls == evZeroDivisor {
		verify(y == 0, name+": zero_divisor for a non-zero divisor")
		reach(name+"/zero_divisor", true)
		return
	}
	verify(y != 0, name+": no zero_divisor for a zero divisor")
	var exact W
	switch name {
	case "//":
		exact = wDivT(wI(x), wI(y))
	case "rem":
		exact = wRemT(wI(x), wI(y))
	case "mod":
		exact = wModF(wI(x), wI(y))
	case "div":
		exact = wDivF(wI(x), wI(y))
	}
	intResult(name, n, err, exact)
}

// summaryMulI is the contract of mulI (exact product, or int_overflow when it does not fit). H_C07_intNL#0 and
// H_C07_mulIContract discharge it for all operand pairs; H_C07_pow uses it in place of mulI so that the path
// conditions of intPow are polynomial bounds instead of wrapped products and divisions.
func summaryMulI(x, y Integer) (Integer, error) {
	exact := wMul(wI(int64(x)), wI(int64(y)))
	if wFits64(exact) {
		return Integer(wTo64(exact)), nil
	}
	return 0, exceptionalValueIntOverflow
}

// H_C07_mulIContract: mulI and its summary agree on every operand pair (value and error identity).
func H_C07_mulIContract(inst int) {
	x, y := Integer(nondetInt64("x")), Integer(nondetInt64("y"))
	r1, e1 := mulI(x, y)
	r2, e2 := summaryMulI(x, y)
	verify(e1 == e2, "mulI contract: error differs")
	verify(r1 == r2, "mulI contract: value differs")
}

var c07PowExps = []int64{0, 1, 2, 3, 4, 5, 6, 7, 8, 9, 10, 15, 16, 17, 31, 32, 33, 62, 63, 64, 65, 127}

// H_C07_pow: X ^ Y on integers. inst selects the exponent (concrete, from c07PowExps); base symbolic at full width.
func H_C07_pow(inst int) {
	e := c07PowExps[inst]
	var x int64
	if e > 17 {
		// degree > 17 polynomial bounds are out of reach of the solvers at full width: the bases that do not
		// overflow at these exponents are tiny, so the base is case-split over -16..16 (enumeration, stated as such)
		x = int64(choice("x", 33)) - 16
	} else {
		x = nondetInt64("x")
	}
	n, err := eval(atomCaret.Apply(Integer(x), Integer(e)), nil)
	exact := wI(1)
	for i := int64(0); i < e; i++ {
		exact = wMul(exact, wI(x))
	}
	intResult("pow", n, err, exact)
}

var c07FloatNames = []string{"+", "-", "*", "/", "neg", "abs", "sign", "float_integer_part", "float_fractional_part", "min", "max", "sqrt"}

func finite(f float64) bool { return bNot(bOr(fIsInf(f), fIsNaN(f))) }

// floatResult: property: IEEE-754 double result; float_overflow only if that result is infinite, undefined only if
// NaN, underflow only if a non-zero exact result rounds to zero (for * and /: result zero with non-zero operands).
func floatResult(what string, n Number, err error, ieee float64, underflowPossible bool, kfid string, region bool) {
	cls := classifyEvalErr(err)
	switch cls {
	case evNone:
		r, ok := n.(Float)
		verify(ok, what+": result is not a Float")
		verify(fSame(float64(r), ieee), what+": result differs from the IEEE-754 result")
		reach(what+"/value", true)
	case evFloatOverflow:
		// known finding (if listed): the pre-check of addF fires when the exact sum exceeds MaxFloat64 but rounds to it
		verifyKF(fIsInf(ieee), what+": float_overflow although the IEEE result is finite", kfid, region)
		reach(what+"/float_overflow", true)
	case evUndefined:
		verify(fIsNaN(ieee), what+": undefined although the IEEE result is a number")
	case evUnderflow:
		verify(bAnd(underflowPossible, fIsZero(ieee)), what+": underflow although the IEEE result is non-zero")
		reach(what+"/underflow", true)
	default:
		verify(false, what+": unexpected error class")
	}
}

func H_C07_float(inst int) {
	x := nondetFloat64("x")
	y := nondetFloat64("y")
	assume(bAnd(finite(x), finite(y))) // finite float leaves (property quantifier)
	X, Y := Float(x), Float(y)
	name := c07FloatNames[inst]
	switch name {
	case "+":
		n, err := eval(atomPlus.Apply(X, Y), nil)
		floatResult("addF", n, err, x+y, false, kfAddF, math.Abs(x+y) == math.MaxFloat64)
	case "-":
		n, err := eval(atomMinus.Apply(X, Y), nil)
		floatResult("subF", n, err, x-y, false, kfAddF, math.Abs(x-y) == math.MaxFloat64)
	case "*":
		n, err := eval(atomAsterisk.Apply(X, Y), nil)
		floatResult("mulF", n, err, x*y, bAnd(x != 0, y != 0), "", false)
	case "/":
		n, err := eval(atomSlash.Apply(X, Y), nil)
		if classifyEvalErr(err) == evZeroDivisor {
			verify(y == 0, "divF: zero_divisor for non-zero divisor")
			return
		}
		verify(y != 0, "divF: no zero_divisor")
		floatResult("divF", n, err, x/y, x != 0, "", false)
	case "neg":
		n, err := eval(atomMinus.Apply(X), nil)
		floatResult("negF", n, err, -x, false, "", false)
	case "abs":
		n, err := eval(atomAbs.Apply(X), nil)
		floatResult("absF", n, err, math.Abs(x), false, "", false)
	case "sign":
		n, err := eval(atomSign.Apply(X), nil)
		verify(err == nil, "signF: error")
		r := float64(n.(Float))
		verify(bAnd(bIff(r == 1, x > 0), bAnd(bIff(r == -1, x < 0), bIff(r == 0, x == 0))), "signF: wrong value")
	case "float_integer_part":
		n, err := eval(atomFloatIntegerPart.Apply(X), nil)
		verify(err == nil, "intPartF: error")
		verify(float64(n.(Float)) == math.Trunc(x), "intPartF: wrong value")
	case "float_fractional_part":
		n, err := eval(atomFloatFractionalPart.Apply(X), nil)
		verify(err == nil, "fractPartF: error")
		verify(float64(n.(Float)) == x-math.Trunc(x), "fractPartF: wrong value")
	case "min":
		n, err := eval(atomMin.Apply(X, Y), nil)
		verify(err == nil, "minF: error")
		r := float64(n.(Float))
		verify(bAnd(bAnd(r <= x, r <= y), bOr(r == x, r == y)), "minF: wrong value")
	case "max":
		n, err := eval(atomMax.Apply(X, Y), nil)
		verify(err == nil, "maxF: error")
		r := float64(n.(Float))
		verify(bAnd(bAnd(r >= x, r >= y), bOr(r == x, r == y)), "maxF: wrong value")
	case "sqrt":
		n, err := eval(atomSqrt.Apply(X), nil)
		if x < 0 {
			verify(classifyEvalErr(err) == evUndefined, "sqrt: negative operand must be undefined")
			return
		}
		floatResult("sqrt", n, err, math.Sqrt(x), false, "", false)
	}
}

var c07F2INames = []string{"floor", "truncate", "round", "ceiling"}

// H_C07_f2i: float-to-integer functions are exact or raise int_overflow.
func H_C07_f2i(inst int) {
	x := nondetFloat64("x")
	assume(finite(x))
	var fn Atom
	var want float64
	switch c07F2INames[inst] {
	case "floor":
		fn, want = atomFloor, math.Floor(x)
	case "truncate":
		fn, want = atomTruncate, math.Trunc(x)
	case "round":
		fn, want = atomRound, math.Round(x)
	case "ceiling":
		fn, want = atomCeiling, math.Ceil(x)
	}
	n, err := eval(fn.Apply(Float(x)), nil)
	// the mathematically exact result is the integral float `want`; it fits iff -2^63 <= want < 2^63
	fits := bAnd(want >= -9223372036854775808.0, want < 9223372036854775808.0)
	cls := classifyEvalErr(err)
	if cls == evNone {
		r, ok := n.(Integer)
		verify(ok, "f2i: result is not an Integer")
		verify(fits, "f2i: value returned although the exact result does not fit in 64 bits")
		// exactness stated inside FP: converting the integer back gives exactly `want`, and |want| < 2^63 makes
		// that conversion exact for integral floats
		verify(fOfInt(int64(r)) == want, "f2i: result is not the exact value")
		reach("f2i/value", true)
	} else {
		verify(cls == evIntOverflow, "f2i: unexpected error class")
		verify(bNot(fits), "f2i: int_overflow although the exact result fits")
		reach("f2i/overflow", true)
	}
}

var c07CmpOps = []string{"=:=", "=\\=", "<", "=<", ">", ">="}

// relHolds runs the real comparison predicate and reports whether it succeeded.
func relHolds(op string, a, b Term) (ok bool, err error) {
	var p *Promise
	k := func(*Env) *Promise { ok = true; return Bool(true) }
	switch op {
	case "=:=":
		p = Equal(nil, a, b, k, nil)
	case "=\\=":
		p = NotEqual(nil, a, b, k, nil)
	case "<":
		p = LessThan(nil, a, b, k, nil)
	case "=<":
		p = LessThanOrEqual(nil, a, b, k, nil)
	case ">":
		p = GreaterThan(nil, a, b, k, nil)
	case ">=":
		p = GreaterThanOrEqual(nil, a, b, k, nil)
	}
	_, err = p.Force(ctxBackground())
	return ok, err
}

func wantRelF(op string, x, y float64) bool {
	switch op {
	case "=:=":
		return x == y
	case "=\\=":
		return x != y
	case "<":
		return x < y
	case "=<":
		return x <= y
	case ">":
		return x > y
	}
	return x >= y
}

func wantRelI(op string, x, y int64) bool {
	switch op {
	case "=:=":
		return x == y
	case "=\\=":
		return x != y
	case "<":
		return x < y
	case "=<":
		return x <= y
	case ">":
		return x > y
	}
	return x >= y
}

// H_C07_cmp: inst = op*4 + mode, mode: 0 II, 1 FF, 2 IF, 3 FI. Mixed: integer converted to float (property text).
func H_C07_cmp(inst int) {
	op := c07CmpOps[inst/4]
	switch inst % 4 {
	case 0:
		x, y := nondetInt64("x"), nondetInt64("y")
		ok, err := relHolds(op, Integer(x), Integer(y))
		verify(err == nil, "cmp: error")
		verify(bIff(ok, wantRelI(op, x, y)), "cmp II: wrong truth value")
	case 1:
		x, y := nondetFloat64("x"), nondetFloat64("y")
		assume(bAnd(finite(x), finite(y)))
		ok, err := relHolds(op, Float(x), Float(y))
		verify(err == nil, "cmp: error")
		verify(bIff(ok, wantRelF(op, x, y)), "cmp FF: wrong truth value")
	case 2:
		x, y := nondetInt64("x"), nondetFloat64("y")
		assume(finite(y))
		ok, err := relHolds(op, Integer(x), Float(y))
		verify(err == nil, "cmp: error")
		verify(bIff(ok, wantRelF(op, fOfInt(x), y)), "cmp IF: wrong truth value")
	case 3:
		x, y := nondetFloat64("x"), nondetInt64("y")
		assume(finite(x))
		ok, err := relHolds(op, Float(x), Integer(y))
		verify(err == nil, "cmp: error")
		verify(bIff(ok, wantRelF(op, x, fOfInt(y))), "cmp FI: wrong truth value")
	}
}

var c07MixedNames = []string{"+IF", "+FI", "-IF", "-FI", "*IF", "*FI", "/IF", "/FI", "/II"}

// H_C07_mixed: mixed-mode + - * / convert the integer operand to float (RNE) and then behave as the float functor.
func H_C07_mixed(inst int) {
	i := nondetInt64("i")
	f := nondetFloat64("f")
	j := nondetInt64("j")
	assume(finite(f))
	fi := fOfInt(i)
	name := c07MixedNames[inst]
	var n Number
	var err error
	var ieee float64
	var uf, zd bool
	kf, region := "", false
	switch name {
	case "+IF":
		n, err = eval(atomPlus.Apply(Integer(i), Float(f)), nil)
		ieee = fi + f
		kf, region = kfAddF, math.Abs(ieee) == math.MaxFloat64
	case "+FI":
		n, err = eval(atomPlus.Apply(Float(f), Integer(i)), nil)
		ieee = f + fi
		kf, region = kfAddF, math.Abs(ieee) == math.MaxFloat64
	case "-IF":
		n, err = eval(atomMinus.Apply(Integer(i), Float(f)), nil)
		ieee = fi - f
		kf, region = kfAddF, math.Abs(ieee) == math.MaxFloat64
	case "-FI":
		n, err = eval(atomMinus.Apply(Float(f), Integer(i)), nil)
		ieee = f - fi
		kf, region = kfAddF, math.Abs(ieee) == math.MaxFloat64
	case "*IF":
		n, err = eval(atomAsterisk.Apply(Integer(i), Float(f)), nil)
		ieee, uf = fi*f, bAnd(i != 0, f != 0)
	case "*FI":
		n, err = eval(atomAsterisk.Apply(Float(f), Integer(i)), nil)
		ieee, uf = f*fi, bAnd(i != 0, f != 0)
	case "/IF":
		n, err = eval(atomSlash.Apply(Integer(i), Float(f)), nil)
		ieee, uf, zd = fi/f, i != 0, f == 0
	case "/FI":
		n, err = eval(atomSlash.Apply(Float(f), Integer(i)), nil)
		ieee, uf, zd = f/fi, f != 0, i == 0
	case "/II":
		n, err = eval(atomSlash.Apply(Integer(i), Integer(j)), nil)
		ieee, uf, zd = fi/fOfInt(j), i != 0, j == 0
	}
	if name[0] == '/' {
		if classifyEvalErr(err) == evZeroDivisor {
			verify(zd, name+": zero_divisor for a non-zero divisor")
			return
		}
		verify(bNot(zd), name+": no zero_divisor for a zero divisor")
	}
	floatResult(name, n, err, ieee, uf, kf, region)
}

// H_C07_expr: nested expressions: (x op1 y) op2 z over + - with the error of the inner node propagating.
func H_C07_expr(inst int) {
	x, y, z := nondetInt64("x"), nondetInt64("y"), nondetInt64("z")
	ops := []Atom{atomPlus, atomMinus}
	o1, o2 := ops[inst%2], ops[(inst/2)%2]
	left := inst/4 == 0
	var t Term
	if left {
		t = o2.Apply(o1.Apply(Integer(x), Integer(y)), Integer(z))
	} else {
		t = o2.Apply(Integer(z), o1.Apply(Integer(x), Integer(y)))
	}
	n, err := eval(t, nil)
	var inner W
	if o1 == atomPlus {
		inner = wAdd(wI(x), wI(y))
	} else {
		inner = wSub(wI(x), wI(y))
	}
	a, b := inner, wI(z)
	if !left {
		a, b = wI(z), inner
	}
	var outer W
	if o2 == atomPlus {
		outer = wAdd(a, b)
	} else {
		outer = wSub(a, b)
	}
	cls := classifyEvalErr(err)
	if cls == evNone {
		verify(bAnd(wFits64(inner), bAnd(wFits64(outer), wEq(wI(int64(n.(Integer))), outer))), "expr: wrong value")
	} else {
		verify(cls == evIntOverflow, "expr: unexpected error class")
		verify(bOr(bNot(wFits64(inner)), bNot(wFits64(outer))), "expr: int_overflow although every intermediate fits")
	}
}

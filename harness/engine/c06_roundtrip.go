//go:build verif

package engine

// C06 — text written by writeq/write_canonical reads back as the same term.

import (
	"strconv"
	"math"
	"bytes"
	"context"
	"strings"
)

// terms in functional notation (parsed independently of the operator table); foo/bar/baz are user operators whose
// priority and specifier are symbolic / case-split; X, Y are variables.
var c06Terms = []string{
	"foo(a, b)", "foo(foo(a, b), c)", "foo(a, foo(b, c))", "foo(foo(a, b), foo(c, d))", "bar(a)", "bar(bar(a))", "bar(foo(a, b))",
	"foo(bar(a), b)", "foo(a, bar(b))", "baz(a)", "baz(baz(a))", "baz(foo(a, b))", "foo(baz(a), b)", "foo(a, baz(b))", "bar(baz(a))",
	"baz(bar(a))", "foo(foo, foo)", "foo(bar, baz)", "bar(foo)", "baz(bar)", "f(foo(a, b))", "f(foo, bar, baz)", "f(bar(a), baz(b))",
	"[foo(a, b), bar(c)]", "[foo|bar]", "'{}'(foo(a, b))", "foo(f(a), [b])", "foo(X, Y)", "bar(X)", "foo('A', 'b c')",
	"foo(1, 2)", "foo(-1, 2)", "foo(1, -2)", "bar(1)", "bar(-1)", "baz(-1)", "foo(- 1, a)", "-(1)", "-(-(1))", "-(-1)", "-(a)", "-(-(a))",
	"1 - -1", "a - (-1)", "-(1) + 2", "- (1 + 2)", "-(foo(a, b))", "foo(-(a), b)", "1 + 2 * 3", "(1 + 2) * 3", "1 - (2 - 3)", "1 - 2 - 3",
	"2 ** (3 ** 4)", "(2 ** 3) ** 4", "2 ^ 3 ^ 4", "(2 ^ 3) ^ 4", "a :- b, c ; d -> e", "(a :- b) :- c", "f((a, b))", "f((a :- b))",
	"f(:-)", "f(:-, -)", "[(a, b)]", "[a|(b, c)]", "\\+ a", "\\+ (a, b)", "\\+ \\+ a", "- - a", "\\ - a", "f(+)", "+(+(+))", "=(*, *)",
	"[-]", "[-|-]", "'|'(a, b)", "f('|')", "(a | b)", "'[]'", "'{}'", "'{}'(a)", "{a, b}", "[]", "'[]'(a)", "'.'(a)", "f(',')", "','(a)",
	"','(a, b, c)", "=(a, \\+)", "=(\\+, a)", "f(a, -)", "=(-, -)", "[a, b|c]", "\"abc\"", "f(\"\")", "'hello world'(a)", "f('\\n')", "f('')",
	"''", "f(a, 'B', _c)", "'/*'", "f('/*')", "//", "f(;)", "(a ; b)", "';'(a)", "f(!)", "!", "f('$VAR'(foo))", "foo(a, b) = bar(c)",
	"f(X, X)", "foo(X, X)", "[X, Y, X|Y]", "bar(X) = baz(X)",
	"1 - +(a, b, c)", "a = -(1, 2, 3)", "-(+(a, b, c))", "foo(1, bar(a, b, c))", "bar(foo(a, b, c))", "f(+(a, b, c))", "[-(1, 2, 3)]", "\\+ (+(a, b, c))",
	"baz(foo(a, b, c))", "foo(foo(a, b, c), bar(a, b))", "+(a, b, c) - 1", "-(-)", "\\+ (-)", "1 - (-)", "bar(bar)", "bar(baz)", "baz(baz)",
	"1 = foo(2, 3)", "- (1) - 1", "1 - (-(1))", "a- - -b", "f(a- -1)", "1.0 - -1.0", "-(1.0)", "foo(-1.0, 2.5)", "- a ^ 2", "(- a) ^ 2", "-(1) ^ 2", "-1 ^ 2", "- (1 ^ 2)",
}

var c06Numbers = []string{"0", "1", "-1", "9223372036854775807", "-9223372036854775808", "1.0", "-1.0", "0.1", "1.0e10", "1.0e-10",
	"1.7976931348623157e308", "4.9e-324", "-0.0", "123456789.125", "0'a", "0x1F", "0b101", "0o17", "1.0Inf"}

// c06SetOps defines the user operators with symbolic priorities; returns false if op/3 rejected them.
func c06SetOps(vm *VM) {
	infix := []Atom{atomXFX, atomXFY, atomYFX}[choice("foo_spec", 3)]
	prefix := []Atom{atomFX, atomFY}[choice("bar_spec", 2)]
	postfix := []Atom{atomXF, atomYF}[choice("baz_spec", 2)]
	p1, p2, p3 := nondetInt64("foo_prio"), nondetInt64("bar_prio"), nondetInt64("baz_prio")
	for _, p := range []int64{p1, p2, p3} {
		assume(bAnd(p >= 1, p <= 1200))
	}
	def := func(p int64, spec Atom, name string) {
		_, err := Op(vm, Integer(p), spec, NewAtom(name), Success, nil).Force(context.Background())
		verify(err == nil, "harness: op/3 rejected a valid operator")
	}
	def(p1, infix, "foo")
	def(p2, prefix, "bar")
	def(p3, postfix, "baz")
	if choice("foo_also_prefix", 2) == 1 {
		p4 := nondetInt64("foo_prefix_prio")
		assume(bAnd(p4 >= 1, p4 <= 1200))
		def(p4, []Atom{atomFX, atomFY}[choice("foo_prefix_spec", 2)], "foo")
	}
}

func c06Write(vm *VM, t Term, opts Term) (string, error) {
	var buf bytes.Buffer
	s := NewOutputTextStream(&buf)
	_, err := WriteTerm(vm, s, t, opts, Success, nil).Force(context.Background())
	return buf.String(), err
}

func c06Read(vm *VM, text string) (Term, error) {
	p := NewParser(vm, strings.NewReader(text))
	return p.Term()
}

var (
	c06Quoted    = List(NewAtom("quoted").Apply(NewAtom("true")))
	c06Canonical = List(NewAtom("quoted").Apply(NewAtom("true")), NewAtom("ignore_ops").Apply(NewAtom("true")))
	c06WriteQ    = List(NewAtom("quoted").Apply(NewAtom("true")), NewAtom("numbervars").Apply(NewAtom("true")))
)

func c06RoundTrip(vm *VM, t Term, what string) {
	for i, opts := range []Term{c06Quoted, c06Canonical, c06WriteQ} {
		if i == 2 && c06HasVar(t) {
			continue // writeq prints _G123 for variables like the others; numbervars only changes '$VAR'(N), excluded
		}
		text, err := c06Write(vm, t, opts)
		verify(err == nil, what+": write_term raised an error")
		back, err := c06Read(vm, text+" .")
		if err != nil {
			note("written", text)
		}
		verify(err == nil, what+": the written text is not accepted by the reader under the same operator table")
		same := vVariantV(vPlain(t, nil), vPlain(back, nil), &rRename{}, &rRename{})
		if !decideNote(same) {
			note("written", text)
		}
		verify(same, what+": the text reads back as a different term")
	}
}

func c06HasVar(t Term) bool {
	switch x := t.(type) {
	case Variable:
		return true
	case Compound:
		for i := 0; i < x.Arity(); i++ {
			if c06HasVar(x.Arg(i)) {
				return true
			}
		}
	}
	return false
}

// VH_C06_ops: inst indexes c06Terms; the user operator table is symbolic; double_quotes by case split.
func VH_C06_ops(vm *VM, inst int) {
	switch choice("double_quotes", 3) {
	case 0:
		vm.doubleQuotes = doubleQuotesCodes
	case 1:
		vm.doubleQuotes = doubleQuotesChars
	case 2:
		vm.doubleQuotes = doubleQuotesAtom
	}
	src := c06Terms[inst]
	note("term", src)
	// the source term is parsed BEFORE the user operators exist (functional / standard-operator notation)
	t, err := c06Read(vm, src+" .")
	verify(err == nil, "harness: source term does not parse: "+src)
	c06SetOps(vm)
	c06RoundTrip(vm, t, src)
	reach("c06/ops", true)
}

// VH_C06_atoms: single-character atoms over every ASCII character (symbolic), as an atom, argument, functor,
// operand and list element; plus a pool of multi-character atoms of every lexical class.
var c06AtomPool = []string{"", "a", "aB_1", "A", "_a", "[]", "{}", "!", ";", ",", "|", "'", "\\", "\"", "`", "a b", "a'b", "a\\b", "\n", "\t", "+", "++", "-->", ":-",
	"/*", "*/", "%", "% c", ".", "..", ". ", "é", "日本", "a.b", "0", "0a", "1.0", "-1", "- 1", "a\x00b", "\x7f", "¬", "∀", "end_of_file", "[a]", "{a}", "'a'", "\"a\"", "()", "(", ")"}

func VH_C06_atoms(vm *VM, inst int) {
	var a Atom
	if inst == 0 {
		r := nondetInt32("rune")
		assume(bAnd(r >= 1, r < 0x80))
		a = Atom(r)
	} else {
		a = NewAtom(c06AtomPool[inst-1])
		note("atom", c06AtomPool[inst-1])
	}
	x := NewAtom("x")
	ctxs := []Term{
		a,
		NewAtom("f").Apply(a),
		NewAtom("f").Apply(a, a),
		a.Apply(x),
		a.Apply(x, x),
		List(a, a),
		NewAtom("-").Apply(a),
		NewAtom("-").Apply(a, a),
		NewAtom("=").Apply(a, x),
		NewAtom("f").Apply(NewAtom("-").Apply(a), a.Apply(a)),
	}
	c := choice("context", len(ctxs))
	c06RoundTrip(vm, ctxs[c], "atom context")
	reach("c06/atoms", true)
}

// VH_C06_numbers: boundary numbers (concrete text; number text is not symbolically encoded): term round trip in
// operator contexts and number_chars/number_codes round trip.
// c06FloatBits: doubles given by their bit patterns (not read from text, so that the value written is exactly this
// double). They are doubles whose shortest decimal text is a hard case for a reader that rounds twice (found by a
// native search over random doubles while building the corpus; any correctly rounding reader reads them back).
var c06FloatBits = []uint64{12091256663452910845, 4208788186319845371, 3165249016171070463, 9693517532263589711, 15599340036116299565,
	8853865560969916339, 13927270205285481567, 14360895281479201863, 13804159357042800325, 0x0010000000000000, 0x000FFFFFFFFFFFFF, 0x7FEFFFFFFFFFFFFF, 0x3FB999999999999A, 0x4340000000000001}

func VH_C06_numbers(vm *VM, inst int) {
	var n Term
	var err error
	src := ""
	if inst >= len(c06Numbers) {
		n = Float(math.Float64frombits(c06FloatBits[inst-len(c06Numbers)]))
		note("number", "float with bits "+strconv.FormatUint(c06FloatBits[inst-len(c06Numbers)], 10))
	} else {
		src = c06Numbers[inst]
		note("number", src)
		n, err = c06Read(vm, src+" .")
	}
	if src == "1.0Inf" {
		return // not a number literal of this system; nothing to claim
	}
	verify(err == nil, "harness: number does not parse: "+src)
	_, isNum := n.(Number)
	verify(isNum, "harness: not a number")
	a := NewAtom("a")
	ctxs := []Term{n, NewAtom("f").Apply(n), NewAtom("-").Apply(n), NewAtom("-").Apply(a, n), NewAtom("-").Apply(n, n), NewAtom("+").Apply(n, a),
		NewAtom("^").Apply(n, Integer(2)), NewAtom("e").Apply(n), NewAtom("=").Apply(n, NewAtom("e")), List(n, n), NewAtom("-").Apply(NewAtom("-").Apply(n))}
	c := choice("context", len(ctxs))
	c06RoundTrip(vm, ctxs[c], "number context")
	if c == 0 {
		for _, pred := range []string{"number_chars", "number_codes"} {
			l, back := NewVariable(), NewVariable()
			goal := vConj(NewAtom(pred).Apply(n, l), NewAtom(pred).Apply(back, l))
			r := vRunImpl(vm, goal, []Variable{back}, 1, nil)
			verify(r.status == "stopped", pred+": cannot turn its own output back into a number")
			verify(vAtomicEq(r.answers[0][0], n), pred+": round trip gives a different number")
		}
	}
	reach("c06/numbers", true)
}

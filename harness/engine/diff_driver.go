//go:build verif

package engine

// Differential driver: the same program and query are run by the real VM and by refprolog on the same
// symbolic constants; answers, final status, error terms and side-effect traces must agree.

import (
	"context"
	"io"
	"strings"
)

// vCase is one program skeleton. Atoms k0..k5 in the texts stand for symbolic constants (solver-chosen atoms
// from a small alphabet, so that which of them coincide is decided by the solver); n0..n3 for symbolic small integers.
type vCase struct {
	name   string
	prog   string // clauses, asserted in order with assertz/1
	query  string // a single goal
	max    int    // answers to compare (default 6)
	steps  int    // reference step budget (default 400)
	consts int    // size of the alphabet for k-atoms (default 3: a, b, c)
	static bool   // load through Compile (static procedures) instead of assertz
	unordered bool // answers are compared as multisets (group order of bagof/setof is not constrained)
}

type vParsed struct {
	terms []Term
	vars  []ParsedVariable
}

func vParseAll(vm *VM, text string) ([]Term, error) {
	p := NewParser(vm, strings.NewReader(text))
	var out []Term
	for {
		p.Vars = p.Vars[:0]
		t, err := p.Term()
		if err != nil {
			if err == io.EOF {
				return out, nil
			}
			return out, err
		}
		out = append(out, t)
	}
}

func vParseQuery(vm *VM, text string) (Term, []ParsedVariable, error) {
	p := NewParser(vm, strings.NewReader(text))
	t, err := p.Term()
	return t, p.Vars, err
}

type vConsts struct {
	atoms []Term // symbolic atoms for k0..
	ints  []Term // symbolic integers for n0..
	names []Atom
	inames []Atom
	wides  []Term // full-width symbolic integers for w0..
	wnames []Atom
}

func vNewConsts(alphabet int) *vConsts {
	c := &vConsts{}
	for i := 0; i < 6; i++ {
		c.names = append(c.names, NewAtom("k"+string(rune('0'+i))))
	}
	for i := 0; i < 4; i++ {
		c.inames = append(c.inames, NewAtom("n"+string(rune('0'+i))))
	}
	for i := 0; i < 3; i++ {
		c.wnames = append(c.wnames, NewAtom("w"+string(rune('0'+i))))
	}
	c.wides = make([]Term, 3)
	c.atoms = make([]Term, 6)
	c.ints = make([]Term, 4)
	_ = alphabet
	return c
}

// get returns the symbolic value for a placeholder atom, drawing it on first use.
func (c *vConsts) get(a Atom, alphabet int) (Term, bool) {
	for i, n := range c.names {
		if n == a {
			if c.atoms[i] == nil {
				v := nondetUint64("k" + string(rune('0'+i)))
				assume(bAnd(v >= 'a', v < uint64('a'+alphabet)))
				c.atoms[i] = Atom(v)
			}
			return c.atoms[i], true
		}
	}
	for i, n := range c.inames {
		if n == a {
			if c.ints[i] == nil {
				v := nondetInt64("n" + string(rune('0'+i)))
				assume(bAnd(v >= 0, v < int64(alphabet)))
				c.ints[i] = Integer(v)
			}
			return c.ints[i], true
		}
	}
	for i, n := range c.wnames {
		if n == a {
			if c.wides[i] == nil {
				c.wides[i] = Integer(nondetInt64("w" + string(rune('0'+i)))) // any 64-bit integer
			}
			return c.wides[i], true
		}
	}
	return nil, false
}

// vSubst replaces placeholder atoms by symbolic constants (compounds are rebuilt; variables kept).
func vSubst(t Term, c *vConsts, alphabet int) Term {
	switch x := t.(type) {
	case Atom:
		if v, ok := c.get(x, alphabet); ok {
			return v
		}
		return x
	case charList, codeList:
		return x
	case list:
		out := make(list, len(x))
		for i := range x {
			out[i] = vSubst(x[i], c, alphabet)
		}
		return out
	case *partial:
		prefix := x.Compound.(list)
		out := make([]Term, len(prefix))
		for i := range prefix {
			out[i] = vSubst(prefix[i], c, alphabet)
		}
		return PartialList(vSubst(*x.tail, c, alphabet), out...)
	case Compound:
		args := make([]Term, x.Arity())
		for i := range args {
			args[i] = vSubst(x.Arg(i), c, alphabet)
		}
		return x.Functor().Apply(args...)
	}
	return t
}

// vPlain resolves t under env into a plain term tree (independent of the engine's simplify).
func vPlain(t Term, env *Env) Term {
	t = env.Resolve(t)
	if c, ok := t.(Compound); ok {
		args := make([]Term, c.Arity())
		for i := range args {
			args[i] = vPlain(c.Arg(i), env)
		}
		return c.Functor().Apply(args...)
	}
	return t
}

// vVariantV: structural equality up to bijective variable renaming, returning a (possibly symbolic) bool;
// atomic leaves are compared without forking.
func vVariantV(a, b Term, ab, ba *rRename) bool {
	if a == Term(rImplContext) || b == Term(rImplContext) {
		return true // wherever the context of a built-in's error ended up (e.g. bound to a catcher's variable)
	}
	switch x := a.(type) {
	case Variable:
		y, ok := b.(Variable)
		if !ok {
			return false
		}
		for i, f := range ab.from {
			if f == x {
				return ab.to[i] == y
			}
		}
		for i, f := range ba.from {
			if f == y {
				return ba.to[i] == x
			}
		}
		ab.from, ab.to = append(ab.from, x), append(ab.to, y)
		ba.from, ba.to = append(ba.from, y), append(ba.to, x)
		return true
	case Compound:
		y, ok := b.(Compound)
		if !ok || x.Arity() != y.Arity() {
			return false
		}
		r := x.Functor() == y.Functor()
		if x.Functor() == xError && y.Functor() == xError && x.Arity() == 2 && (y.Arg(1) == Term(rImplContext) || x.Arg(1) == Term(rImplContext)) {
			// error(Formal, Context) raised by a built-in: Context is implementation defined (ISO 7.12.2), only Formal is compared
			return vVariantV(x.Arg(0), y.Arg(0), ab, ba)
		}
		for i := 0; i < x.Arity(); i++ {
			r = bAnd(r, vVariantV(x.Arg(i), y.Arg(i), ab, ba))
		}
		return r
	}
	switch b.(type) {
	case Variable, Compound:
		return false
	}
	return vAtomicEq(a, b)
}

// vAtomicEq compares two atomic terms: same type and same value (floats bit-for-bit).
func vAtomicEq(a, b Term) bool {
	switch x := a.(type) {
	case Atom:
		y, ok := b.(Atom)
		return ok && x == y
	case Integer:
		y, ok := b.(Integer)
		return ok && x == y
	case Float:
		y, ok := b.(Float)
		return ok && fSame(float64(x), float64(y))
	}
	return a == b
}

type vImplRun struct {
	answers [][]Term
	status  string
	err     error
	trace   []Term
}

// vRunImpl runs goal on the real VM, collecting up to max answers as plain terms of vars.
func vRunImpl(vm *VM, goal Term, vars []Variable, max int, trace *[]Term) vImplRun {
	var out vImplRun
	ok, err := Call(vm, goal, func(env *Env) *Promise {
		row := make([]Term, len(vars))
		for i, v := range vars {
			row[i] = vPlain(v, env)
		}
		out.answers = append(out.answers, row)
		if len(out.answers) >= max {
			return Bool(true)
		}
		return Bool(false)
	}, nil).Force(context.Background())
	if e, ok := err.(Exception); ok {
		// the executor explores "not enough free memory" at every makeSlice (free memory is a symbolic amount); resource
		// errors are outside what the differential harnesses compare (C05 checks them), so such a path is dropped
		if c, ok := vFormal(e.Term()).(Compound); ok && c.Functor() == NewAtom("resource_error") {
			assume(false)
		}
	}
	switch {
	case err != nil:
		out.status, out.err = "error", err
	case ok:
		out.status = "stopped"
	default:
		out.status = "exhausted"
	}
	if trace != nil {
		out.trace = *trace
	}
	return out
}

// vFormal extracts the Formal of error(Formal, Context); other balls are returned whole.
func vFormal(ball Term) Term {
	if c, ok := ball.(Compound); ok && c.Functor() == xError && c.Arity() == 2 {
		return c.Arg(0)
	}
	return ball
}

// vCompareRuns asserts that the implementation's run agrees with the reference's.
func vCompareRuns(tag string, impl vImplRun, ref rRun, kfid string, region bool) {
	assume(ref.status != "budget")
	same := impl.status == ref.status && len(impl.answers) == len(ref.answers)
	if !same {
		note("impl_status", impl.status)
		note("ref_status", ref.status)
		note("impl_answers", len(impl.answers))
		note("ref_answers", len(ref.answers))
		if impl.err != nil {
			note("impl_error", vErrString(impl.err))
		}
	}
	verifyKF(same, tag+": number of answers or final status differs from the reference", kfid, region)
	okAll := true
	if vUnordered && ref.status == "exhausted" {
		// greedy matching; every row comparison is decided on this path, equal rows are interchangeable
		used := make([]bool, len(ref.answers))
		for i := range impl.answers {
			found := false
			for j := range ref.answers {
				if used[j] {
					continue
				}
				ab, ba := &rRename{}, &rRename{}
				eq := true
				for c := range impl.answers[i] {
					eq = bAnd(eq, vVariantV(impl.answers[i][c], ref.answers[j][c], ab, ba))
				}
				if eq {
					used[j], found = true, true
					break
				}
			}
			if !found {
				okAll = false
			}
		}
	} else {
		for i := range impl.answers {
			ab, ba := &rRename{}, &rRename{}
			for j := range impl.answers[i] {
				okAll = bAnd(okAll, vVariantV(impl.answers[i][j], ref.answers[i][j], ab, ba))
			}
		}
	}
	verifyKF(okAll, tag+": an answer differs from the reference", kfid, region)
	if impl.status == "error" {
		ex, isEx := impl.err.(Exception)
		verifyKF(isEx, tag+": error is not a Prolog exception (Go error leaked)", kfid, region)
		if isEx {
			verifyKF(vVariantV(vFormal(vPlain(ex.Term(), nil)), vFormal(ref.ball), &rRename{}, &rRename{}), tag+": error term differs from the reference", kfid, region)
		}
	}
	tr := len(impl.trace) == len(ref.trace)
	verifyKF(tr, tag+": side-effect trace length differs", kfid, region)
	if tr {
		okT := true
		for i := range impl.trace {
			okT = bAnd(okT, vVariantV(impl.trace[i], ref.trace[i], &rRename{}, &rRename{}))
		}
		verifyKF(okT, tag+": side-effect trace differs", kfid, region)
	}
}

func vErrString(err error) string {
	if e, ok := err.(Exception); ok {
		return "exception " + e.Error()
	}
	return "go error " + err.Error()
}

// vRegisterEmit installs emit/1, which records a copy of its argument.
func vRegisterEmit(vm *VM, trace *[]Term) {
	vm.Register1(NewAtom("emit"), func(_ *VM, t Term, k Cont, env *Env) *Promise {
		*trace = append(*trace, vPlain(t, env))
		return k(env)
	})
}

// vRunCase loads c into the VM and into the reference, runs the query on both and compares.
func vRunCase(vm *VM, c vCase, kfid string, region bool) {
	if c.consts == 0 {
		c.consts = 3
	}
	note("case", c.name+": "+c.prog+" ?- "+c.query)
	consts := vNewConsts(c.consts)
	clauses, err := vParseAll(vm, c.prog)
	verify(err == nil, "harness: program text does not parse: "+c.name)
	q, qvars, err := vParseQuery(vm, c.query)
	verify(err == nil, "harness: query text does not parse: "+c.name)
	for i := range clauses {
		clauses[i] = vSubst(clauses[i], consts, c.consts)
	}
	q = vSubst(q, consts, c.consts)
	vars := make([]Variable, len(qvars))
	for i, pv := range qvars {
		vars[i] = pv.Variable
	}
	vUnordered = c.unordered
	vRunTerms(vm, c.name, clauses, q, vars, c.max, c.steps, kfid, region)
	vUnordered = false
}

// vUnordered: compare answer rows as multisets (set by vRunCase for cases whose answer order is unconstrained).
var vUnordered bool

// vRunTerms: clauses are asserted with the real assertz/1 and added to the reference database; the query is run
// on both and the runs are compared.
func vRunTerms(vm *VM, name string, clauses []Term, q Term, vars []Variable, max, steps int, kfid string, region bool) {
	if max == 0 {
		max = 6
	}
	if steps == 0 {
		steps = 400
	}
	var trace []Term
	vRegisterEmit(vm, &trace)
	db := &rDB{}
	for _, cl := range clauses {
		ok, err := Assertz(vm, cl, Success, nil).Force(context.Background())
		verify(ok && err == nil, "harness: assertz of a skeleton clause failed: "+name)
		db.add(rCopy(cl, nil, &rRename{}), false, true)
	}
	m := newRM(db, steps, max)
	ref := m.run(q, vars)
	impl := vRunImpl(vm, q, vars, max, &trace)
	vCompareRuns(name, impl, ref, kfid, region)
	reach("diff/"+ref.status, true)
}

// ---- small term-building helpers for generated skeletons ----

func vA(name string) Atom { return NewAtom(name) }

// vK draws a fresh symbolic atom constant from the alphabet a.. (alphabet letters).
func vK(name string, alphabet int) Term {
	v := nondetUint64(name)
	assume(bAnd(v >= 'a', v < uint64('a'+alphabet)))
	return Atom(v)
}

func vConj(gs ...Term) Term {
	if len(gs) == 0 {
		return xTrue
	}
	t := gs[len(gs)-1]
	for i := len(gs) - 2; i >= 0; i-- {
		t = xComma.Apply(gs[i], t)
	}
	return t
}

func vDisj(gs ...Term) Term {
	t := gs[len(gs)-1]
	for i := len(gs) - 2; i >= 0; i-- {
		t = xSemiColon.Apply(gs[i], t)
	}
	return t
}

func vRule(head Term, body Term) Term { return xIf.Apply(head, body) }

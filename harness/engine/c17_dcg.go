//go:build verif

package engine

// C17 — DCG translation preserves the language and the threading of the remainder.
//
// Reference semantics: the standard translation of the DCG draft (ISO/IEC DTR 13211-3, dcgsdin150408) written
// independently here, executed by refprolog (where conjunction is transparent to cut, as ISO prescribes).

import "context"

var (
	rAtomArrow  = NewAtom("-->")
	rAtomPhrase = NewAtom("phrase")
	rAtomBar    = NewAtom("|")
	rAtomCurly  = NewAtom("{}")
)

func rDCGTerminals(list Term, s0, s Term) (Term, bool) {
	elems, ok, _ := rListElems(list, nil)
	if !ok {
		return nil, false
	}
	var l Term = s
	for i := len(elems) - 1; i >= 0; i-- {
		l = xDot.Apply(elems[i], l)
	}
	return xEqual.Apply(s0, l), true
}

func rDCGNonTerminal(nt Term, s0, s Term) (Term, bool) {
	switch x := nt.(type) {
	case Atom:
		return x.Apply(s0, s), true
	case Compound:
		args := make([]Term, 0, x.Arity()+2)
		for i := 0; i < x.Arity(); i++ {
			args = append(args, x.Arg(i))
		}
		return x.Functor().Apply(append(args, s0, s)...), true
	}
	return nil, false
}

func rDCGBody(b Term, s0, s Term) (Term, bool) {
	switch x := b.(type) {
	case Variable:
		return rAtomPhrase.Apply(x, s0, s), true
	case Atom:
		switch x {
		case xEmptyList:
			return xEqual.Apply(s0, s), true
		case xCut:
			return xComma.Apply(xCut, xEqual.Apply(s0, s)), true
		}
		return rDCGNonTerminal(x, s0, s)
	case Compound:
		f, n := x.Functor(), x.Arity()
		switch {
		case f == xDot && n == 2:
			return rDCGTerminals(x, s0, s)
		case f == xComma && n == 2:
			mid := NewVariable()
			a, ok1 := rDCGBody(x.Arg(0), s0, mid)
			b, ok2 := rDCGBody(x.Arg(1), mid, s)
			return xComma.Apply(a, b), ok1 && ok2
		case (f == xSemiColon || f == rAtomBar) && n == 2:
			a, ok1 := rDCGBody(x.Arg(0), s0, s)
			b, ok2 := rDCGBody(x.Arg(1), s0, s)
			return xSemiColon.Apply(a, b), ok1 && ok2
		case f == xThen && n == 2:
			mid := NewVariable()
			a, ok1 := rDCGBody(x.Arg(0), s0, mid)
			b, ok2 := rDCGBody(x.Arg(1), mid, s)
			return xThen.Apply(a, b), ok1 && ok2
		case f == rAtomCurly && n == 1:
			return xComma.Apply(x.Arg(0), xEqual.Apply(s0, s)), true
		case f == xNegation && n == 1:
			a, ok := rDCGBody(x.Arg(0), s0, NewVariable())
			return xComma.Apply(xNegation.Apply(a), xEqual.Apply(s0, s)), ok
		case f == xCall && n >= 1:
			args := make([]Term, 0, n+2)
			for i := 0; i < n; i++ {
				args = append(args, x.Arg(i))
			}
			return xCall.Apply(append(args, s0, s)...), true
		}
		return rDCGNonTerminal(x, s0, s)
	}
	return nil, false
}

// rDCGRule translates Head --> Body (with optional push-back) into a clause.
func rDCGRule(rule Term) (Term, bool) {
	r, ok := rule.(Compound)
	if !ok || r.Functor() != rAtomArrow || r.Arity() != 2 {
		return nil, false
	}
	s0, s := NewVariable(), NewVariable()
	if c, ok := r.Arg(0).(Compound); ok && c.Functor() == xComma && c.Arity() == 2 {
		s1 := NewVariable()
		head, ok1 := rDCGNonTerminal(c.Arg(0), s0, s)
		g1, ok2 := rDCGBody(r.Arg(1), s0, s1)
		g2, ok3 := rDCGTerminals(c.Arg(1), s, s1)
		return xIf.Apply(head, xComma.Apply(g1, g2)), ok1 && ok2 && ok3
	}
	head, ok1 := rDCGNonTerminal(r.Arg(0), s0, s)
	body, ok2 := rDCGBody(r.Arg(1), s0, s)
	return xIf.Apply(head, body), ok1 && ok2
}

type c17Case struct {
	name    string
	grammar string // DCG rules and ordinary clauses
	queries []string
}

var c17Inputs = "[i0], [i0, i1], [i0, i1, i2], []"

var c17Cases = []c17Case{
	{name: "terminals", grammar: "s --> [k0], [k1].", queries: []string{"phrase(s, [i0, i1]).", "phrase(s, [i0, i1, i2], R).", "phrase(s, L)."}},
	{name: "terminal-list-2", grammar: "s --> [k0, k1], [].", queries: []string{"phrase(s, [i0, i1]).", "phrase(s, [i0|T], R)."}},
	{name: "string-terminal", grammar: "s --> \"ab\", [k0].", queries: []string{"phrase(s, [a, b, i0]).", "phrase(s, L)."}},
	{name: "nonterminals", grammar: "s --> x, y. x --> [k0]. x --> [k1]. y --> [k1]. y --> [].", queries: []string{"phrase(s, [i0, i1]).", "phrase(s, [i0]).", "phrase(s, [i0, i1, i2], R).", "phrase(s, L)."}},
	{name: "nonterminal-args", grammar: "s(X, Y) --> t(X), t(Y). t(k0) --> [k0]. t(k1) --> [k1]. t(none) --> [].", queries: []string{"phrase(s(A, B), [i0, i1]).", "phrase(s(A, B), [i0], R).", "phrase(s(k0, B), L)."}},
	{name: "alternation-semicolon", grammar: "s --> [k0] ; [k1], [k0] ; [].", queries: []string{"phrase(s, [i0]).", "phrase(s, [i0, i1]).", "phrase(s, [i0, i1], R).", "phrase(s, L)."}},
	{name: "alternation-bar", grammar: "s --> [k0] | [k1].", queries: []string{"phrase(s, [i0]).", "phrase(s, [i0, i1], R).", "phrase(s, L)."}},
	{name: "alternation-nested", grammar: "s --> ([k0] ; [k1]), ([k0] ; [k1]).", queries: []string{"phrase(s, [i0, i1]).", "phrase(s, L)."}},
	{name: "curly", grammar: "s(X) --> [X], {X \\== k0}.", queries: []string{"phrase(s(A), [i0]).", "phrase(s(A), [i0, i1], R)."}},
	{name: "curly-binding", grammar: "s(Y) --> [X], {Y = f(X)}, [X].", queries: []string{"phrase(s(A), [i0, i1]).", "phrase(s(A), [i0, i1, i2], R)."}},
	{name: "negation", grammar: "s --> \\+ [k0], [_].", queries: []string{"phrase(s, [i0]).", "phrase(s, [i0, i1], R)."}},
	{name: "negation-no-consume", grammar: "s(R) --> \\+ x, rest(R). x --> [k0], [k1]. rest(L, L, []).", queries: []string{"phrase(s(R), [i0, i1]).", "phrase(s(R), [i0])."}},
	{name: "cut", grammar: "s(X) --> [X], !, t. s(none) --> []. t --> [k0]. t --> [].", queries: []string{"phrase(s(A), [i0, i1]).", "phrase(s(A), [i0]).", "phrase(s(A), [i0, i1], R).", "phrase(s(A), [])."}},
	{name: "cut-commits-alternative", grammar: "s(one) --> [k0], !. s(two) --> [_]. s(three) --> [].", queries: []string{"phrase(s(A), [i0]).", "phrase(s(A), [i0], R).", "phrase(s(A), [])."}},
	{name: "cut-after-nondeterministic", grammar: "s(X) --> t(X), !, [k1]. s(zzz) --> [_, _]. t(k0) --> [k0]. t(any) --> [_].", queries: []string{"phrase(s(A), [i0, i1])."}},
	// steadfastness: committing constructs at the end of a body must not see the caller's remainder
	{name: "cut-last-after-nondeterministic", grammar: "a --> b, !. b --> [k0]. b --> [k0, k0].", queries: []string{"phrase(a, [i0, i1]).", "phrase(a, [i0, i1], R).", "phrase(a, [i0, i1], []).", "phrase(a, L)."}},
	{name: "curly-cut-last", grammar: "a --> b, {!}. b --> [k0]. b --> [k0, k1].", queries: []string{"phrase(a, [i0, i1]).", "phrase(a, [i0, i1], R)."}},
	{name: "empty-last-after-nondeterministic", grammar: "a --> b, []. b --> [k0]. b --> [k0, k0].", queries: []string{"phrase(a, [i0, i1]).", "phrase(a, [i0, i1], R)."}},
	{name: "negation-last", grammar: "a --> b, \\+ [k1]. b --> [k0]. b --> [k0, k0].", queries: []string{"phrase(a, [i0, i1]).", "phrase(a, [i0, i1], R).", "phrase(a, [i0, i1, i2], R)."}},
	{name: "cut-last-in-chain", grammar: "s --> a. a --> b, !. b --> [k0]. b --> [k0, k0].", queries: []string{"phrase(s, [i0, i1]).", "phrase((b, !), [i0, i1])."}},
	{name: "call1", grammar: "s --> call(t), [k1]. t([k0|R], R). t(R, R).", queries: []string{"phrase(s, [i0, i1]).", "phrase(s, [i0]).", "phrase(s, L)."}},
	{name: "call2", grammar: "s(X) --> call(t, X). t(k0, [k0|R], R). t(k1, [k1, k1|R], R).", queries: []string{"phrase(s(A), [i0]).", "phrase(s(A), [i0, i1]).", "phrase(s(A), L, [])."}},
	{name: "var-body", grammar: "s(G) --> G, [k1]. t --> [k0].", queries: []string{"phrase(s(t), [i0, i1]).", "phrase(s([k0]), [i0, i1]).", "phrase(s(([k0] ; [k1])), [i0, i1])."}},
	{name: "if-then-else", grammar: "s(R) --> ( [k0] -> {R = yes} ; {R = no}, [_] ).", queries: []string{"phrase(s(R), [i0]).", "phrase(s(R), [i0, i1], T)."}},
	{name: "if-then-else-cond-once", grammar: "s(X) --> ( t(X) -> [] ; [_] ). t(k0) --> [k0]. t(k1) --> [_].", queries: []string{"phrase(s(X), [i0])."}},
	{name: "if-then-no-else", grammar: "s --> ( [k0] -> [k1] ).", queries: []string{"phrase(s, [i0, i1]).", "phrase(s, [i0])."}},
	{name: "pushback", grammar: "s, [k0] --> [k1]. t --> s, [k0].", queries: []string{"phrase(t, [i0]).", "phrase(s, [i0], R).", "phrase(s, [i0, i1], R)."}},
	{name: "pushback-2", grammar: "look(X), [X] --> [X]. s(X) --> look(X), [X], [k0].", queries: []string{"phrase(s(A), [i0, i1]).", "phrase(s(A), [i0, i1], R)."}},
	{name: "recursion-right", grammar: "as([]) --> []. as([X|Xs]) --> [X], {X = k0}, as(Xs).", queries: []string{"phrase(as(L), [i0, i1]).", "phrase(as(L), [i0, i1, i2], R).", "phrase(as([k0, k0]), L)."}},
	{name: "recursion-count", grammar: "n(z) --> []. n(s(N)) --> [k0], n(N).", queries: []string{"phrase(n(N), [i0, i1]).", "phrase(n(s(s(z))), L).", "phrase(n(N), [i0, i1], R)."}},
	{name: "remainder-threading", grammar: "s --> x, y, z. x --> [k0] ; []. y --> [k1] ; []. z --> [k0] ; [].", queries: []string{"phrase(s, [i0, i1, i2], R).", "phrase(s, [i0, i1]).", "phrase(s, L)."}},
	{name: "phrase-body-direct", grammar: "t --> [k0].", queries: []string{"phrase(([k0], t ; [k1]), [i0, i1]).", "phrase((t, !, [k1]), [i0, i1], R).", "phrase(\\+ t, [i0], R).", "phrase({X = k0}, [i0], R).", "phrase([], L).", "phrase([k0, k1], [i0|T])."}},
	{name: "phrase-errors", grammar: "t --> [k0].", queries: []string{"phrase(G, [i0]).", "phrase(1, [i0])."}},
	{name: "non-dcg-clause-mixed", grammar: "s(X) --> [X], {p(X)}. p(k0). p(k1).", queries: []string{"phrase(s(A), [i0]).", "phrase(s(A), L)."}},
	{name: "nested-all", grammar: "s(R) --> ( t(A), \\+ [k1] -> {R = A} ; [_], {R = other} ), ( [k0] | [] ). t(k0) --> [k0]. t(k1) --> [k1].", queries: []string{"phrase(s(R), [i0, i1]).", "phrase(s(R), [i0], T)."}},
}

// c17Subst replaces i0..i2 (input elements) and k* by symbolic atoms over a 2-letter alphabet.
func c17Subst(t Term, consts *vConsts, ins []Term) Term {
	switch x := t.(type) {
	case Atom:
		s := x.String()
		if len(s) == 2 && s[0] == 'i' && s[1] >= '0' && s[1] <= '2' {
			i := int(s[1] - '0')
			if ins[i] == nil {
				ins[i] = vK("i"+s[1:], 2)
			}
			return ins[i]
		}
		if v, ok := consts.get(x, 2); ok {
			return v
		}
		return x
	case charList, codeList:
		return x
	case list:
		out := make(list, len(x))
		for i := range x {
			out[i] = c17Subst(x[i], consts, ins)
		}
		return out
	case *partial:
		prefix := x.Compound.(list)
		out := make([]Term, len(prefix))
		for i := range prefix {
			out[i] = c17Subst(prefix[i], consts, ins)
		}
		return PartialList(c17Subst(*x.tail, consts, ins), out...)
	case Compound:
		args := make([]Term, x.Arity())
		for i := range args {
			args[i] = c17Subst(x.Arg(i), consts, ins)
		}
		return x.Functor().Apply(args...)
	}
	return t
}

// VH_C17: inst selects the grammar; the query by case split.
func VH_C17(vm *VM, inst int) {
	c17Run(vm, c17Cases[inst])
}

// VH_C17_shape: generated family. Body = [k0], then 2..3 elements of which one is a cut element (position and kind
// by case split: !, {!}, {true, !}) - elements before it [], the one after it the terminal [k1] - in EVERY
// parenthesisation of the body; a second rule x --> [k0], [k2] and a third x --> [] make a cut that does not commit
// visible. Contexts (inst/2): 0 plain rule, 1 push-back head x, [p], 2 the body as the left alternative of ( ; ).
func VH_C17_shape(vm *VM, inst int) {
	n := 3 + inst%2
	ctx := inst / 2
	cutPos := 1 + choice("cutpos", n-1)
	cutKind := []string{"!", "{!}", "{true, !}"}[choice("cutkind", 3)]
	leaves := make([]string, n)
	leaves[0] = "[k0]"
	for i := 1; i < n; i++ {
		switch {
		case i == cutPos:
			leaves[i] = cutKind
		case i == cutPos+1:
			leaves[i] = "[k1]"
		default:
			leaves[i] = "[]"
		}
	}
	trees := c03Trees(leaves)
	body := trees[choice("shape", len(trees))]
	var g string
	switch ctx {
	case 0:
		g = "x --> " + body + ". x --> [k0], [k2]. x --> []."
	case 1:
		g = "x, [p] --> " + body + ". x --> [k0], [k2]. x --> []."
	default:
		g = "x --> ( " + body + " ; [k0], [k2] ). x --> []."
	}
	c17Run(vm, c17Case{name: "shape", grammar: g, queries: []string{"phrase(x, [i0, i1]).", "phrase(x, [i0, i1], R).", "phrase(x, [i0], R).", "phrase(x, [i0, i1, i2], R)."}})
	reach("c17/shape", true)
}

// VH_C17_disj: every parenthesisation of an alternation of 3..4 bodies (joined by ; or |, by case split) of which one
// is an if-then ( [k0] -> [k1] ); inst = alternatives-3.
func VH_C17_disj(vm *VM, inst int) {
	n := 3 + inst%2
	pos := choice("itpos", n)
	alts := []string{"[k0]", "[k1], [k0]", "[k0], [k0]", "[]"}[:n]
	alts[pos] = "( [k0] -> [k1] )"
	sep := []string{" ; ", " | "}[choice("sep", 2)]
	trees := c03TreesSep(alts, sep)
	body := trees[choice("shape", len(trees))]
	c17Run(vm, c17Case{name: "disj-shape", grammar: "x --> " + body + ".", queries: []string{"phrase(x, [i0, i1]).", "phrase(x, [i0, i1], R).", "phrase(x, [i0], R).", "phrase(x, L)."}})
	reach("c17/disj", true)
}

// VH_C17_wide: inst = head shape*4 + separator*2 + (alternatives-2); the alternatives by case split. Wide heads with
// short alternatives.
func VH_C17_wide(vm *VM, inst int) {
	heads := []string{"w", "w(_)", "w(_, _)", "w([_|_], [_|_])", "w(f(_), g(_), _)", "w(_, _, _, _, _, _, _)", "w([_, _|_], f(g(_)))"}
	calls := []string{"w", "w(A)", "w(A, B)", "w([1], [2])", "w(f(1), g(2), C)", "w(1, 2, 3, 4, 5, 6, 7)", "w([1, 2], f(g(3)))"}
	short := []string{"x", "y", "[]"}
	hd := inst / 4
	sep := []string{" | ", " ; "}[(inst/2)%2]
	n := 2 + inst%2
	body := ""
	for i := 0; i < n; i++ {
		if i > 0 {
			body += sep
		}
		body += short[choice("alt", len(short))]
	}
	g := heads[hd] + " --> " + body + ". x --> [k0]. y --> [k1]."
	c17Run(vm, c17Case{name: "wide", grammar: g, queries: []string{"phrase(" + calls[hd] + ", L).", "phrase(" + calls[hd] + ", [i0]).", "phrase(" + calls[hd] + ", [i0, i1], R)."}})
	reach("c17/wide", true)
}

func c17Run(vm *VM, c c17Case) {
	vm.doubleQuotes = doubleQuotesChars
	qi := choice("query", len(c.queries))
	note("case", c.name+": "+c.grammar+" ?- "+c.queries[qi])
	consts := vNewConsts(2)
	ins := make([]Term, 3)
	rules, err := vParseAll(vm, c.grammar)
	verify(err == nil, "harness: grammar does not parse")
	db := &rDB{}
	for _, r := range rules {
		r = c17Subst(r, consts, ins)
		// implementation: expand_term/2, then assertz of its output
		out := NewVariable()
		var expanded Term
		ok, err := ExpandTerm(vm, r, out, func(e *Env) *Promise { expanded = vPlain(out, e); return Bool(true) }, nil).Force(context.Background())
		verify(ok && err == nil, c.name+": expand_term/2 failed or raised an error")
		ok, err = Assertz(vm, expanded, Success, nil).Force(context.Background())
		if e, isEx := err.(Exception); isEx {
			if f, isC := vFormal(e.Term()).(Compound); isC && f.Functor() == NewAtom("resource_error") {
				assume(false) // "not enough free memory" (symbolic) for a clause with more than 8 arguments: not the subject here
			}
		}
		verify(ok && err == nil, c.name+": the expansion is not a clause")
		// structural check: a translated rule is Head :- Body whose head carries two extra arguments
		if rc, isRule := r.(Compound); isRule && rc.Functor() == rAtomArrow {
			h, _ := rHeadBody(expanded)
			_, ha, _ := rNameArity(h)
			src := rc.Arg(0)
			if pb, ok := src.(Compound); ok && pb.Functor() == xComma && pb.Arity() == 2 {
				src = pb.Arg(0)
			}
			_, sa, _ := rNameArity(src)
			verify(ha == sa+2, c.name+": translated head does not have two extra arguments")
			ref, ok := rDCGRule(rCopy(r, nil, &rRename{}))
			verify(ok, "harness: reference translation failed")
			db.add(ref, false, true)
		} else {
			db.add(rCopy(r, nil, &rRename{}), false, true)
		}
	}
	q, qvars, err := vParseQuery(vm, c.queries[qi])
	verify(err == nil, "harness: query does not parse")
	q = c17Subst(q, consts, ins)
	vars := make([]Variable, len(qvars))
	for i, pv := range qvars {
		vars[i] = pv.Variable
	}
	m := newRM(db, 600, 8)
	ref := m.run(q, vars)
	impl := vRunImpl(vm, q, vars, 8, nil)
	vCompareRuns(c.name, impl, ref, "", false)
	reach("c17/"+ref.status, true)
}

//go:build verif

package engine

// C09 — database updates follow the logical update view; retract removes its match.
//
// A history of operations over the dynamic predicate p/1 is executed step by step on the real VM and on the
// reference database (generation-stamped clauses). After every step the answers of the step, the emitted trace
// and the complete listing of p/1 (read through clause/2 and directly from vm.procedures) must agree.

import "context"

var c09P = NewAtom("p")

func c09K(i int) Term { return vK("k"+string(rune('0'+i)), 2) }

// c09Simple builds one non-nested operation goal. kind: 0 assertz(p(K)) 1 asserta(p(K)) 2 retract(p(K))
// 3 retract(p(X)) (first solution) 4 retract-all by failure 5 retractall(p(_)) 6 abolish(p/1).
func c09Simple(kind int, k Term) Term {
	x := NewVariable()
	switch kind {
	case 0:
		return rAtomAssertz.Apply(c09P.Apply(k))
	case 1:
		return rAtomAsserta.Apply(c09P.Apply(k))
	case 2:
		return rAtomOnce.Apply(rAtomRetract.Apply(c09P.Apply(k)))
	case 3:
		return rAtomOnce.Apply(rAtomRetract.Apply(c09P.Apply(x)))
	case 4:
		return vDisj(vConj(rAtomRetract.Apply(c09P.Apply(x)), xFail), xTrue)
	case 5:
		return rAtomRetractall.Apply(c09P.Apply(x))
	}
	return rAtomAbolish.Apply(xSlash.Apply(c09P, Integer(1)))
}

// c09Nested: an enumeration (call or retract) of p/1 whose every solution triggers one nested operation
// (failure-driven loop) - updates issued while a call or a retract of the same predicate is open.
func c09Nested(outerRetract bool, nestedKind int, k Term) Term {
	x := NewVariable()
	var gen Term = c09P.Apply(x)
	if outerRetract {
		gen = rAtomRetract.Apply(c09P.Apply(x))
	}
	return vDisj(vConj(gen, rAtomEmit.Apply(x), c09Simple(nestedKind, k), xFail), xTrue)
}

// c09Nested2: as c09Nested with two nested operations per solution.
func c09Nested2(outerRetract bool, k1, k2 int, a, b Term) Term {
	x := NewVariable()
	var gen Term = c09P.Apply(x)
	if outerRetract {
		gen = rAtomRetract.Apply(c09P.Apply(x))
	}
	return vDisj(vConj(gen, rAtomEmit.Apply(x), c09Simple(k1, a), c09Simple(k2, b), xFail), xTrue)
}

type c09Step struct {
	goal Term
	desc string
}

func c09Listing(vm *VM) ([]Term, bool) {
	// through clause/2
	var viaClause []Term
	h, b := NewVariable(), NewVariable()
	_, err := Clause(vm, c09P.Apply(h), b, func(env *Env) *Promise {
		viaClause = append(viaClause, xIf.Apply(c09P.Apply(vPlain(h, env)), vPlain(b, env)))
		return Bool(false)
	}, nil).Force(context.Background())
	if err != nil {
		return nil, false
	}
	// directly from the procedure table
	var direct []Term
	if p, ok := vm.procedures[procedureIndicator{name: c09P, arity: 1}]; ok {
		if u, ok := p.(*userDefined); ok {
			for _, c := range u.clauses {
				direct = append(direct, rulify(vPlain(c.raw, nil), nil))
			}
		}
	}
	same := len(direct) == len(viaClause)
	if same {
		for i := range direct {
			same = bAnd(same, vVariantV(direct[i], viaClause[i], &rRename{}, &rRename{}))
		}
	}
	verify(same, "clause/2 listing differs from the stored clause list")
	return viaClause, true
}

func c09SameListing(impl []Term, ref []Term) bool {
	if len(impl) != len(ref) {
		return false
	}
	ok := true
	for i := range impl {
		ok = bAnd(ok, vVariantV(impl[i], ref[i], &rRename{}, &rRename{}))
	}
	return ok
}

// c09RunRef runs the steps on a fresh copy of db with the given redo variant and returns per-step runs and listings.
type c09RefOut struct {
	runs     []rRun
	listings [][]Term
	exists   []bool
	budget   bool
	sawRemovedMatch bool
}

func c09RunRef(db *rDB, steps []c09Step, redoSucceeds bool) c09RefOut {
	var out c09RefOut
	db = db.clone()
	for _, st := range steps {
		m := newRM(db, 600, 4)
		m.redoSucceedsOnRemoved = redoSucceeds
		r := m.run(st.goal, nil)
		if r.status == "budget" {
			out.budget = true
		}
		out.sawRemovedMatch = out.sawRemovedMatch || m.sawRemovedMatch
		out.runs = append(out.runs, r)
		out.listings = append(out.listings, db.listing(c09P, 1))
		out.exists = append(out.exists, db.find(c09P, 1) != nil)
	}
	return out
}

// c09Check compares the implementation's per-step observations with one reference variant.
func c09Match(implRuns []vImplRun, implListings [][]Term, ref c09RefOut) bool {
	ok := true
	for i := range implRuns {
		ir, rr := implRuns[i], ref.runs[i]
		if ir.status != rr.status || len(ir.answers) != len(rr.answers) || len(ir.trace) != len(rr.trace) {
			return false
		}
		if ir.status == "error" {
			ex, isEx := ir.err.(Exception)
			if !isEx {
				return false
			}
			ok = bAnd(ok, vVariantV(vFormal(vPlain(ex.Term(), nil)), vFormal(rr.ball), &rRename{}, &rRename{}))
		}
		for j := range ir.trace {
			ok = bAnd(ok, vVariantV(ir.trace[j], rr.trace[j], &rRename{}, &rRename{}))
		}
		ok = bAnd(ok, c09SameListing(implListings[i], ref.listings[i]))
	}
	return ok
}

// VH_C09: inst selects the history family; ops, nesting and constants by case split / solver.
//   inst 0: 2 initial clauses, then 2 simple ops.            inst 1: 1 nested-in-call op, then 1 simple op.
//   inst 2: 1 nested-in-retract op, then 1 simple op.        inst 3: 3 simple ops (thorough).
//   inst 4: nested-in-call then nested-in-retract (thorough). inst 5: simple, nested-in-retract, simple (thorough).
//   inst 6: one enumeration (call or retract) with two nested operations per solution.
// ---- text cases: clauses that contain variables shared with the goal that asserts them ----
//
// The logical update view is about which clauses a goal sees; these cases add the other half of "the database is
// what the updates made it": a stored clause is a snapshot of the term at assert time, so binding the caller's
// variable afterwards changes neither what later calls, clause/2 nor retract/1 see.
var c09Cases = []vCase{
	{name: "nonground-then-bind-retract", prog: ":- dynamic(q/2).", query: "assertz(q(X, k0)), assertz(q(k1, k2)), X = k3, retract(q(k1, T)), findall(A-B, q(A, B), L)."},
	{name: "nonground-twice-retract-two", prog: ":- dynamic(p/1).", query: "assertz(p(X)), assertz(p(X)), once(retract(p(k0))), once(retract(p(k1))), findall(A, p(A), L)."},
	{name: "nonground-then-bind-call", prog: ":- dynamic(p/1).", query: "assertz(p(X)), X = k0, p(Y)."},
	{name: "nonground-then-bind-clause", prog: ":- dynamic(p/2).", query: "assertz(p(k0, X)), X = k1, clause(p(k0, Y), true)."},
	{name: "nonground-asserta-retract-binds-caller", prog: ":- dynamic(b/2).", query: "asserta(b(X, [X|_])), retract(b(k0, _))."},
	{name: "nonground-rule-then-bind", prog: ":- dynamic(r/1).", query: "assertz((r(X) :- X = k0 ; X = Y)), Y = k1, r(Z)."},
	{name: "nonground-retract-then-reassert", prog: ":- dynamic(p/1). p(k0). p(k1).", query: "retract(p(X)), assertz(p(f(X, Y))), Y = k2, fail ; findall(A, p(A), L)."},
	{name: "retract-var-pattern-first", prog: ":- dynamic(p/2). p(k0, k1). p(k1, k0). p(k0, k0).", query: "retract(p(X, X)), findall(A-B, p(A, B), L)."},
	{name: "assert-in-open-call-nonground", prog: ":- dynamic(p/1). p(k0). p(k1).", query: "p(X), assertz(p(g(X, Z))), Z = k2, fail ; findall(A, p(A), L)."},
	{name: "arity0-duplicates-stale-retract", prog: ":- dynamic(foo/0). t :- assertz(foo), assertz(foo), retract(foo), once(retract(foo)), assertz(foo), fail. t.", query: "t, findall(x, foo, L)."},
	{name: "arity0-duplicates-retract-one", prog: ":- dynamic(foo/0). foo. foo. foo.", query: "retract(foo), findall(x, foo, L)."},
	{name: "arity0-rule-duplicates", prog: ":- dynamic(foo/0). :- dynamic(m/1). foo :- m(k0). foo :- m(k1). foo :- m(k0).", query: "retract((foo :- m(k0))), assertz((foo :- m(k2))), fail ; findall(B, clause(foo, B), L)."},
	{name: "ground-duplicates-stale-retract", prog: ":- dynamic(g/1). t :- assertz(g(k0)), assertz(g(k0)), retract(g(k0)), once(retract(g(k0))), assertz(g(k0)), fail. t.", query: "t, findall(X, g(X), L)."},
	{name: "retractall-one-head-among-rules", prog: ":- dynamic(q/1). :- dynamic(ok/0). q(k0). q(k1) :- ok. q(k2). q(X) :- X = k3.", query: "retractall(q(k1)), findall(H-B, clause(q(H), B), L)."},
	{name: "retractall-everything-incl-rules", prog: ":- dynamic(q/1). :- dynamic(ok/0). q(k0). q(k1) :- ok. q(X) :- X = k3.", query: "retractall(q(_)), findall(H, clause(q(H), _), L)."},
	{name: "retractall-inside-open-call", prog: ":- dynamic(q/1). :- dynamic(ok/0). ok. q(k0). q(k1) :- ok. q(k2).", query: "q(X), retractall(q(_)), fail ; findall(H, clause(q(H), _), L)."},
	{name: "retractall-nonmatching-rule-heads", prog: ":- dynamic(q/2). q(k0, X) :- X = k1. q(k1, k2). q(Y, k0) :- Y = k2.", query: "retractall(q(k0, _)), findall(A-B-C, clause(q(A, B), C), L)."},
	{name: "retract-clause-with-body-var", prog: ":- dynamic(p/1). p(X) :- X = k0. p(k1).", query: "retract((p(A) :- B)), findall(C, p(C), L)."},
}

func VH_C09_text(vm *VM, inst int) {
	vRunCase(vm, c09Cases[inst], "", false)
	reach("c09/text", true)
}

func VH_C09(vm *VM, inst int) {
	var trace []Term
	vRegisterEmit(vm, &trace)
	// initial database: 1..3 clauses p(K)
	n0 := 1 + choice("initial", 3)
	var init []Term
	for i := 0; i < n0; i++ {
		init = append(init, c09P.Apply(c09K(i)))
	}
	var steps []c09Step
	simple := func(tag string, kc int) {
		steps = append(steps, c09Step{goal: c09Simple(choice("op"+tag, 7), c09K(kc)), desc: "simple"})
	}
	nested := func(tag string, outerRetract bool, kc int) {
		steps = append(steps, c09Step{goal: c09Nested(outerRetract, choice("nested"+tag, 6), c09K(kc)), desc: "nested"})
	}
	switch inst {
	case 0:
		simple("1", 3)
		simple("2", 4)
	case 1:
		nested("1", false, 3)
		simple("2", 4)
	case 2:
		nested("1", true, 3)
		simple("2", 4)
	case 3:
		simple("1", 3)
		simple("2", 4)
		simple("3", 5)
	case 4:
		nested("1", false, 3)
		nested("2", true, 4)
	case 5:
		simple("1", 3)
		nested("2", true, 4)
		simple("3", 5)
	case 6: // two nested operations per solution of an open retract / call (ops: assertz, asserta, retract(p(K)))
		outer := choice("outer", 2) == 1
		steps = append(steps, c09Step{goal: c09Nested2(outer, choice("n1", 3), choice("n2", 3), c09K(3), c09K(4)), desc: "nested2"})
	}
	db := &rDB{}
	for _, cl := range init {
		ok, err := Assertz(vm, cl, Success, nil).Force(context.Background())
		verify(ok && err == nil, "harness: initial assertz failed")
		db.add(rCopy(cl, nil, &rRename{}), false, true)
	}
	// implementation
	var implRuns []vImplRun
	var implListings [][]Term
	for _, st := range steps {
		trace = nil
		r := vRunImpl(vm, st.goal, nil, 4, &trace)
		implRuns = append(implRuns, r)
		l, ok := c09Listing(vm)
		verify(ok, "clause/2 on p/1 raised an error")
		implListings = append(implListings, l)
	}
	// reference, both admissible variants of the retract redo rule
	refA := c09RunRef(db, steps, false)
	assume(!refA.budget)
	okA := c09Match(implRuns, implListings, refA)
	ok := okA
	if refA.sawRemovedMatch {
		refB := c09RunRef(db, steps, true)
		assume(!refB.budget)
		ok = bOr(okA, c09Match(implRuns, implListings, refB))
		reach("c09/redo-on-removed-clause", true)
	}
	if !decideNote(ok) {
		for i := range implRuns {
			note("step"+string(rune('0'+i)), steps[i].desc+" impl="+implRuns[i].status+" ref="+refA.runs[i].status)
		}
	}
	verify(ok, "history: answers, traces or database listing differ from the logical-update-view reference")
	reach("c09/done", true)
}

// decideNote returns c when concrete; for symbolic c it returns true (notes are only written for concrete mismatches).
func decideNote(c bool) bool {
	if symbolicRun() {
		return true
	}
	return c
}

//go:build verif

package engine

// C08 — standard order is total and representation-independent; sorts obey it.

import "context"

var c08Templates = []string{
	"k0", "k1", "w0", "w1", "1.0", "0.5", "X", "Y", "foo", "f(X)", "f(k0)", "g(k0, w0)", "h(k0, k1, n0)", "[k0]",
	"\"a\"", "[a]", "'.'(a, [])", "g(w1, k0)", "fo", "-(1)", "- 1", "1", "f(1.0)",
}

func c08Parse3(vm *VM, i, j, k int) (Term, Term, Term) {
	text := "p(" + c08Templates[i] + ", " + c08Templates[j] + ", " + c08Templates[k] + ")."
	note("case", text)
	t, _, err := vParseQuery(vm, text)
	verify(err == nil, "harness: triple does not parse: "+text)
	t = vSubst(t, vNewConsts(2), 2)
	c := t.(Compound)
	return c.Arg(0), c.Arg(1), c.Arg(2)
}

func c08Cmp(a, b Term) int {
	c := a.Compare(b, nil)
	verify(bOr(c == -1, bOr(c == 0, c == 1)), "compare: result outside {-1, 0, 1}")
	if c < 0 {
		return -1
	}
	if c > 0 {
		return 1
	}
	return 0
}

// VH_C08_order: inst = i*N + j for the pair (a, b); the third term c ranges over all templates by case split.
func VH_C08_order(vm *VM, inst int) {
	n := len(c08Templates)
	i, j := inst/n, inst%n
	k := choice("third", n)
	vm.doubleQuotes = doubleQuotesChars
	a, b, c := c08Parse3(vm, i, j, k)
	ab, ba := c08Cmp(a, b), c08Cmp(b, a)
	verify(c08Cmp(a, a) == 0, "compare(a, a) is not =")
	verify(ab == -ba, "compare is not antisymmetric")
	verify((ab == 0) == decide(vIdenticalV(vPlain(a, nil), vPlain(b, nil))), "compare says = for terms that are not identical (or the reverse)")
	verify(ab == rCompare(a, b, nil), "compare differs from the reference standard order")
	bc, ac := c08Cmp(b, c), c08Cmp(a, c)
	if ab <= 0 && bc <= 0 {
		verify(ac <= 0, "compare is not transitive")
	}
	if ab >= 0 && bc >= 0 {
		verify(ac >= 0, "compare is not transitive (descending)")
	}
	// the comparison predicates of bootstrap.pl agree with compare/3
	if k == 0 {
		ops := []struct {
			op   string
			want bool
		}{{"==", ab == 0}, {"\\==", ab != 0}, {"@<", ab < 0}, {"@=<", ab <= 0}, {"@>", ab > 0}, {"@>=", ab >= 0}}
		for _, o := range ops {
			r := vRunImpl(vm, NewAtom(o.op).Apply(a, b), nil, 1, nil)
			verify(r.status != "error", "comparison predicate raised an error")
			verify((r.status == "stopped") == o.want, "a comparison predicate disagrees with compare/3: "+o.op)
		}
		var got Term
		o := NewVariable()
		_, err := Compare(vm, o, a, b, func(e *Env) *Promise { got = e.Resolve(o); return Bool(true) }, nil).Force(context.Background())
		verify(err == nil, "compare/3 raised an error")
		want := map[int]string{-1: "<", 0: "=", 1: ">"}[ab]
		verify(got == Term(NewAtom(want)), "compare/3 reports a different order than Compare")
	}
	reach("c08/order", true)
}

func VH_C08_orderN() int { return len(c08Templates) * len(c08Templates) }

// ---- sort/2, keysort/2 ----

var c08Elems = []string{"k0", "k1", "w0", "w1", "1.0", "X", "f(k0)", "f(k1)", "g(k0, k1)", "foo", "[k0]", "\"a\"", "h(k0, k1, n0)"}

// VH_C08_sort: inst = length (0..4); elements by case split over c08Elems with symbolic leaves.
func VH_C08_sort(vm *VM, inst int) {
	n := inst
	vm.doubleQuotes = doubleQuotesChars
	text := "p("
	for i := 0; i < n; i++ {
		if i > 0 {
			text += ", "
		}
		text += c08Elems[choice("elem", len(c08Elems))]
	}
	text += ")."
	if n == 0 {
		text = "p."
	}
	note("case", text)
	t, _, err := vParseQuery(vm, text)
	verify(err == nil, "harness: does not parse")
	t = vSubst(t, vNewConsts(2), 2)
	var elems []Term
	if c, ok := t.(Compound); ok {
		for i := 0; i < c.Arity(); i++ {
			elems = append(elems, c.Arg(i))
		}
	}
	// sort/2
	out := NewVariable()
	var got []Term
	ok, err := Sort(vm, List(elems...), out, func(e *Env) *Promise {
		it := ListIterator{List: out, Env: e}
		for it.Next() {
			got = append(got, vPlain(it.Current(), e))
		}
		return Bool(true)
	}, nil).Force(context.Background())
	verify(ok && err == nil, "sort/2 failed or raised an error")
	want := rSortDedupe(elems, nil)
	verify(len(got) == len(want), "sort/2: length differs from the ascending duplicate-free list")
	for i := range got {
		verify(vIdenticalV(got[i], want[i]), "sort/2: element differs from the ascending duplicate-free list")
	}
	for i := 0; i+1 < len(got); i++ {
		verify(got[i].Compare(got[i+1], nil) == -1, "sort/2: output not strictly ascending")
	}
	// keysort/2: keys = the elements, values = positions; stable
	pairs := make([]Term, n)
	for i, e := range elems {
		if _, isVar := e.(Variable); isVar {
			pairs = nil
			break
		}
		pairs[i] = xMinus.Apply(e, Integer(i))
	}
	if pairs != nil {
		kout := NewVariable()
		var kgot []Term
		ok, err := KeySort(vm, List(pairs...), kout, func(e *Env) *Promise {
			it := ListIterator{List: kout, Env: e}
			for it.Next() {
				kgot = append(kgot, vPlain(it.Current(), e))
			}
			return Bool(true)
		}, nil).Force(context.Background())
		verify(ok && err == nil, "keysort/2 failed or raised an error")
		verify(len(kgot) == n, "keysort/2: not a permutation (length)")
		// reference: stable insertion sort by key
		var ref []Term
		for _, p := range pairs {
			pos := len(ref)
			for i := range ref {
				if rCompare(p.(Compound).Arg(0), ref[i].(Compound).Arg(0), nil) < 0 {
					pos = i
					break
				}
			}
			ref = append(ref, nil)
			copy(ref[pos+1:], ref[pos:])
			ref[pos] = p
		}
		for i := range kgot {
			verify(vIdenticalV(kgot[i], ref[i]), "keysort/2: not the stable sort by key")
		}
	}
	if !symbolicRun() {
		// Native replay only: the executor decides stability with a model of sort.Slice that may place ties in any order,
		// whatever the length; Go's own sort.Slice happens to be stable up to 12 elements. A list of 60 pairs over 3 keys
		// lets the native run show the same defect.
		var long []Term
		for i := 0; i < 60; i++ {
			long = append(long, xMinus.Apply(Integer(i%3), Integer(i)))
		}
		lo := NewVariable()
		var lgot []Term
		ok, err := KeySort(vm, List(long...), lo, func(e *Env) *Promise {
			it := ListIterator{List: lo, Env: e}
			for it.Next() {
				lgot = append(lgot, vPlain(it.Current(), e))
			}
			return Bool(true)
		}, nil).Force(context.Background())
		verify(ok && err == nil && len(lgot) == 60, "keysort/2 failed on a list of 60 pairs")
		for i := 1; i < len(lgot); i++ {
			a, b := lgot[i-1].(Compound), lgot[i].(Compound)
			if a.Arg(0) == b.Arg(0) {
				verify(a.Arg(1).(Integer) < b.Arg(1).(Integer), "keysort/2: not the stable sort by key")
			}
		}
	}
	reach("c08/sort", true)
}

// ---- standard order does not depend on how a list was built ----

var c08Lists = [][]string{{"a", "z"}, {"a", "b", "c"}, {"a", "b"}, {"a", "b", "z"}, {"a", "b", "c", "d"}, {"a"}}

func c08ListText(xs []string) string {
	s := "["
	for i, x := range xs {
		if i > 0 {
			s += ", "
		}
		s += x
	}
	return s + "]"
}

// c08Build returns a goal that binds variable v to the list xs, built in the representation chosen by case split:
// literal; append(Prefix, Suffix, V) at every split point; V = [Prefix|T], T = Suffix at every split point;
// atom_chars for the all-letters lists; a cons chain with './2.
func c08Build(v string, xs []string, tag string) string {
	kinds := 1 + 2*(len(xs)-1) + 2
	k := choice("rep"+tag, kinds)
	switch {
	case k == 0:
		return v + " = " + c08ListText(xs)
	case k == kinds-1:
		s := "[]"
		for i := len(xs) - 1; i >= 0; i-- {
			s = "'.'(" + xs[i] + ", " + s + ")"
		}
		return v + " = " + s
	case k == kinds-2:
		a := ""
		for _, x := range xs {
			a += x
		}
		return "atom_chars(" + a + ", " + v + ")"
	}
	k--
	split := 1 + k/2
	pre, suf := c08ListText(xs[:split]), c08ListText(xs[split:])
	if k%2 == 0 {
		return "append(" + pre + ", " + suf + ", " + v + ")"
	}
	p := pre[:len(pre)-1]
	return v + " = " + p + "|T" + tag + "], T" + tag + " = " + suf
}

// VH_C08_rep: inst = i*N + j: lists i and j, each in a representation chosen by case split; compare/3, ==, @< and
// sort/2 must answer as for the literal lists.
func VH_C08_rep(vm *VM, inst int) {
	n := len(c08Lists)
	xs, ys := c08Lists[inst/n], c08Lists[inst%n]
	lx, _, err1 := vParseQuery(vm, "p("+c08ListText(xs)+").")
	ly, _, err2 := vParseQuery(vm, "p("+c08ListText(ys)+").")
	verify(err1 == nil && err2 == nil, "harness: literal lists do not parse")
	want := rCompare(lx.(Compound).Arg(0), ly.(Compound).Arg(0), nil)
	sym := map[int]string{-1: "<", 0: "=", 1: ">"}[want]
	goal := c08Build("X", xs, "x") + ", " + c08Build("Y", ys, "y") + ", compare(O, X, Y), sort([X, Y], S), length(S, N)."
	note("goal", goal)
	q, pv, err := vParseQuery(vm, goal)
	verify(err == nil, "harness: goal does not parse: "+goal)
	var o, nn Variable
	for _, v := range pv {
		switch v.Name.String() {
		case "O":
			o = v.Variable
		case "N":
			nn = v.Variable
		}
	}
	r := vRunImpl(vm, q, []Variable{o, nn}, 1, nil)
	verify(r.status == "stopped", "building and comparing the lists failed or raised an error")
	verify(r.answers[0][0] == Term(NewAtom(sym)), "compare/3 depends on how the lists were built (the literal lists compare "+sym+")")
	wantN := 2
	if want == 0 {
		wantN = 1
	}
	verify(r.answers[0][1] == Term(Integer(wantN)), "sort/2 keeps or drops an element depending on how the lists were built")
	reach("c08/rep", true)
}

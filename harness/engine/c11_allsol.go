//go:build verif

package engine

// C11 — findall/bagof/setof collect exactly the solutions, as copies, grouped by witness.

var c11Facts = "r(k0, k1). r(k2, k1). r(k0, k3). r(k4, k5). "

var c11Cases = []vCase{
	{name: "findall-basic", prog: c11Facts, query: "findall(X, r(X, Y), L)."},
	{name: "findall-pairs", prog: c11Facts, query: "findall(X-Y, r(X, Y), L)."},
	{name: "findall-empty", prog: c11Facts, query: "findall(X, (r(X, Y), X = none), L)."},
	{name: "findall-no-binding-left", prog: c11Facts, query: "findall(X, r(X, Y), L), var(X), var(Y)."},
	{name: "findall-copies", prog: "q(f(_, k0)). q(f(A, A)).", query: "findall(T, q(T), [P, Q]), P = f(k1, _)."},
	{name: "findall-template-shares-outer", prog: c11Facts, query: "findall(X-W, r(X, k1), L)."},
	{name: "findall-bound-instances", prog: c11Facts, query: "findall(X, r(X, k1), [A, B])."},
	{name: "findall-partial-instances", prog: c11Facts, query: "findall(X, r(X, k1), [A|T])."},
	{name: "findall-instances-mismatch", prog: c11Facts, query: "findall(X, r(X, Y), [A])."},
	{name: "findall-order-with-disj", prog: "", query: "findall(X, (X = k0 ; X = k1 ; X = k0), L)."},
	{name: "findall-nested", prog: c11Facts, query: "findall(Y-L, (r(_, Y), findall(X, r(X, Y), L)), LL)."},
	{name: "findall-error-goal", prog: "", query: "findall(X, G, L)."},
	{name: "findall-error-instances", prog: "", query: "findall(X, true, foo)."},
	{name: "bagof-free-var", prog: c11Facts, query: "bagof(X, r(X, Y), L)."},
	{name: "bagof-quantified", prog: c11Facts, query: "bagof(X, Y^r(X, Y), L)."},
	{name: "bagof-no-solution", prog: c11Facts, query: "bagof(X, r(X, none), L)."},
	{name: "bagof-template-both", prog: c11Facts, query: "bagof(X-Y, r(X, Y), L)."},
	{name: "bagof-bound-witness", prog: c11Facts, query: "bagof(X, r(X, k1), L)."},
	{name: "bagof-witness-then-use", prog: c11Facts, query: "bagof(X, r(X, Y), L), Y = k3."},
	{name: "bagof-variant-witnesses", prog: "q(k0, f(_)). q(k1, f(_)). q(k2, f(k3)). q(k4, g).", query: "bagof(X, q(X, W), L)."},
	{name: "bagof-variant-witness-shared", prog: "", query: "bagof(X, (X = k0, Y = Z ; X = k1), L)."},
	{name: "bagof-variant-witness-shared-2", prog: "", query: "bagof(X, (X = k0 ; X = k1, Y = Z), L)."},
	{name: "bagof-partial-witness", prog: "q(k0, f(A, A)). q(k1, f(B, C)). q(k2, f(D, D)).", query: "bagof(X, q(X, W), L)."},
	{name: "bagof-two-free", prog: "t(k0, k1, k2). t(k3, k1, k2). t(k0, k1, k4). t(k3, k5, k2).", query: "bagof(X, t(X, Y, Z), L)."},
	{name: "bagof-one-of-two-quantified", prog: "t(k0, k1, k2). t(k3, k1, k2). t(k0, k1, k4). t(k3, k5, k2).", query: "bagof(X, Z^t(X, Y, Z), L)."},
	{name: "bagof-nested-quantifier", prog: "t(k0, k1, k2). t(k3, k1, k2). t(k0, k5, k4).", query: "bagof(X, Y^Z^t(X, Y, Z), L)."},
	{name: "bagof-bound-instances", prog: c11Facts, query: "bagof(X, r(X, Y), [A, B])."},
	{name: "bagof-conj-goal", prog: c11Facts, query: "bagof(X, (r(X, Y), X \\== k4), L)."},
	{name: "bagof-template-var-in-goal-only-once", prog: c11Facts, query: "bagof(f(X, W), r(X, Y), L)."},
	{name: "setof-sorted-dedup", prog: c11Facts, query: "setof(X, Y^r(X, Y), L)."},
	{name: "setof-free-var", prog: c11Facts, query: "setof(X, r(X, Y), L)."},
	{name: "setof-mixed-types", prog: "q(k0). q(1). q(f(k1)). q(2.5). q(k0). q(n0).", query: "setof(X, q(X), L)."},
	{name: "setof-pairs", prog: c11Facts, query: "setof(Y-X, r(X, Y), L)."},
	{name: "setof-no-solution", prog: c11Facts, query: "setof(X, r(X, none), L)."},
	{name: "setof-bound-instances-dups", prog: "q(k0). q(k1). q(k0).", query: "setof(X, q(X), [A, B])."},
	{name: "setof-bound-instances-exact", prog: "q(b). q(a). q(b).", query: "setof(X, q(X), [a, b])."},
	{name: "setof-with-vars", prog: "q(_). q(k0). q(_).", query: "setof(X, q(X), L)."},
	{name: "setof-nested", prog: c11Facts, query: "setof(Y-L, setof(X, r(X, Y), L), LL)."},
	{name: "bagof-error-goal", prog: "", query: "bagof(X, G, L)."},
	{name: "bagof-error-instances", prog: "", query: "bagof(X, true, foo)."},
	{name: "bagof-quantifier-aliased-before", prog: c11Facts, query: "Y = Z, bagof(X, Y^r(X, Z), L)."},
	{name: "bagof-quantifier-aliased-before-2", prog: c11Facts, query: "Y = Z, bagof(X, Y^r(X, Y), L)."},
	{name: "setof-quantifier-bound-to-compound", prog: "u(k0, f(k1)). u(k2, f(k3)). u(k4, f(k1)).", query: "Y = f(A), setof(X, Y^u(X, Y), L)."},
	{name: "bagof-quantifier-compound-term", prog: "t(k0, k1, k2). t(k3, k1, k2). t(k0, k5, k4).", query: "bagof(X, f(Y, Z)^t(X, Y, Z), L)."},
	{name: "bagof-quantifier-list-bound-later", prog: "t(k0, k1, k2). t(k3, k1, k2). t(k0, k5, k4).", query: "Q = [Y|W], W = [Z], bagof(X, Q^t(X, Y, Z), L)."},
	{name: "bagof-free-var-aliased-before", prog: c11Facts, query: "Y = Z, bagof(X, r(X, Y), L), Z == Y."},
	{name: "bagof-template-aliased-before", prog: c11Facts, query: "T = X, bagof(T, r(X, Y), L)."},
	{name: "bagof-goal-bound-before", prog: c11Facts, query: "G = r(X, Y), bagof(X, Y^G, L)."},
	{name: "bagof-goal-with-caret-bound-before", prog: c11Facts, query: "G = Y^r(X, Y), bagof(X, G, L)."},
	{name: "setof-witness-bound-to-partial", prog: "u(k0, f(k1)). u(k2, f(k3)). u(k4, f(k1)).", query: "Y = f(A), setof(X, u(X, Y), L)."},
	{name: "bagof-free-var-in-list-tail", prog: "r([k0, k1]). r([k2, k3]). r([k4, k1]).", query: "bagof(H, r([H|T]), L)."},
	{name: "setof-free-var-in-list-tail", prog: "r([k0, k1]). r([k2, k3]). r([k4, k1]).", query: "setof(H, r([H|T]), L)."},
	{name: "bagof-template-var-in-list-tail", prog: "s(k0, [k1]). s(k2, [k3]). s(k4, [k1]).", query: "bagof([H|T], s(H, T), L)."},
	{name: "bagof-quantified-var-in-list-tail", prog: "s(k0, [k1]). s(k2, [k3]). s(k4, [k1]).", query: "bagof(H, [x|T]^s(H, T), L)."},
	{name: "bagof-free-var-in-nested-structure", prog: "s(k0, f(g(k1))). s(k2, f(g(k3))). s(k4, f(g(k1))).", query: "bagof(H, s(H, f(g(W))), L)."},
	{name: "bagof-free-var-in-string-like-partial", prog: "s(k0, [a, b, k1]). s(k2, [a, b, k3]).", query: "bagof(H, s(H, [a, b|T]), L)."},
	{name: "bagof-caret-nonvar-goal", prog: "", query: "bagof(X, Y^1, L)."},
	{name: "bagof-cut-local", prog: c11Facts, query: "bagof(X, (r(X, Y), !), L)."},
	{name: "findall-then-backtrack", prog: c11Facts + "o(k0). o(k1).", query: "o(A), findall(X, r(X, A), L)."},
}

func VH_C11(vm *VM, inst int) {
	c := c11Cases[inst]
	c.consts = 2
	c.unordered = true
	vRunCase(vm, c, "", false)
}

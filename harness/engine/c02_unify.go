//go:build verif

package engine

// C02 — unification yields a most general unifier, whatever the term representation.

import (
	"context"
	"strings"
)

func init() { vHarnesses["VH_C02_envStep"] = VH_C02_envStep }

// term templates; variables X, Y, Z are shared between the two sides of a pair; k*/n* are symbolic constants.
var c02Templates = []string{
	"k0", "k1", "n0", "1", "1.0", "X", "Y", "f(X)", "f(k0)", "f(Y)", "g(X, Y)", "g(X, X)", "g(k0, X)", "g(Y, k1)",
	"g(f(X), Y)", "g(Y, f(X))", "g(X, f(X))", "g(f(Y), f(k0))", "[X|Y]", "[k0, k1]", "[X, Y]", "[X|[Y]]", "[k0|X]", "[]",
	"\"ab\"", "[a, b]", "[a|X]", "'.'(a, '.'(b, []))", "'.'(X, Y)", "[X, Y|Z]", "\"a\"", "[Z]", "g([X], Y)", "f(g(X, k0))",
	"[a, b|X]", "\"abc\"", "g(X, g(Y, Z))", "g(g(X, Y), Z)", "[[X]|Y]", "f(_)",
	"g(Y, Y)", "g(Z, f(Z))", "[Y, Y]", "[X, [a|X]]", "[[], k0|X]", "[[], k0, k1]",
}

func c02Pair(inst int) (int, int) {
	n := len(c02Templates)
	i := 0
	for inst >= n-i {
		inst -= n - i
		i++
	}
	return i, i + inst
}

func c02NPairs() int { n := len(c02Templates); return n * (n + 1) / 2 }

// c02Lookups records what every variable of vs resolves to (plainly) in env.
func c02Lookups(vs []Variable, env *Env) []Term {
	out := make([]Term, len(vs))
	for i, v := range vs {
		out[i] = vPlain(v, env)
	}
	return out
}

func c02SameTerms(a, b []Term) bool {
	ok := true
	for i := range a {
		ok = bAnd(ok, vIdenticalV(a[i], b[i]))
	}
	return ok
}

// vIdenticalV: structural identity (same variables, same atomic values), no renaming.
func vIdenticalV(a, b Term) bool {
	switch x := a.(type) {
	case Variable:
		y, ok := b.(Variable)
		return ok && x == y
	case Compound:
		y, ok := b.(Compound)
		if !ok || x.Arity() != y.Arity() {
			return false
		}
		r := x.Functor() == y.Functor()
		for i := 0; i < x.Arity(); i++ {
			r = bAnd(r, vIdenticalV(x.Arg(i), y.Arg(i)))
		}
		return r
	}
	switch b.(type) {
	case Variable, Compound:
		return false
	}
	return vAtomicEq(a, b)
}

// VH_C02_pair: inst selects the pair of templates; flag (double_quotes) by case split.
func VH_C02_pair(vm *VM, inst int) {
	i, j := c02Pair(inst)
	text := "p(" + c02Templates[i] + ", " + c02Templates[j] + ")."
	if strings.Contains(text, "\"") {
		switch choice("double_quotes", 2) {
		case 0:
			vm.doubleQuotes = doubleQuotesCodes
		case 1:
			vm.doubleQuotes = doubleQuotesChars
		}
	}
	note("case", text)
	t, pvars, err := vParseQuery(vm, text)
	verify(err == nil, "harness: pair does not parse: "+text)
	consts := vNewConsts(2)
	t = vSubst(t, consts, 2)
	t1, t2 := t.(Compound).Arg(0), t.(Compound).Arg(1)
	vars := make([]Variable, len(pvars))
	for k, pv := range pvars {
		vars[k] = pv.Variable
	}
	// an environment that already holds an unrelated binding, so that env0 is a real tree
	pre := NewVariable()
	env0 := (*Env)(nil).bind(pre, NewAtom("pre"))
	before := c02Lookups(append(vars, pre), env0)

	// reference
	rs, rok := rUnify(t1, t2, nil)
	_, rokOC := rUnifyOC(t1, t2, nil)
	sto := rok && !rokOC // subject to occurs check: =/2 undefined by ISO, unify_with_occurs_check must fail

	// unify_with_occurs_check/2
	envOC, okOC := env0.unifyWithOccursCheck(t1, t2)
	verify(okOC == rokOC, "unify_with_occurs_check: verdict differs from the reference")
	// the predicates themselves (not only the environment's methods behind them)
	pOC := vRunImpl(vm, NewAtom("unify_with_occurs_check").Apply(t1, t2), nil, 1, nil)
	verify(pOC.status != "error" && (pOC.status == "stopped") == rokOC, "unify_with_occurs_check/2 (the predicate): verdict differs from the reference")
	if !(rok && !rokOC) {
		pU := vRunImpl(vm, xEqual.Apply(t1, t2), nil, 1, nil)
		verify(pU.status != "error" && (pU.status == "stopped") == rok, "=/2 (the predicate): verdict differs from the reference")
		pN := vRunImpl(vm, NewAtom("\\=").Apply(t1, t2), nil, 1, nil)
		verify(pN.status != "error" && (pN.status == "stopped") == !rok, "\\=/2 (the predicate): verdict differs from the reference")
	}
	if okOC {
		verify(bAnd(vIdenticalV(vPlain(t1, envOC), vPlain(t2, envOC)), true), "unify_with_occurs_check: sides not identical after success")
	}
	if sto {
		reach("c02/sto", true)
		after := c02Lookups(append(vars, pre), env0)
		verify(c02SameTerms(before, after), "failed unify_with_occurs_check changed the caller's environment")
		return
	}
	// =/2
	env, ok := env0.Unify(t1, t2)
	verify(ok == rok, "unify: verdict differs from the reference")
	env2, ok2 := env0.Unify(t2, t1)
	verify(ok2 == ok, "unify: not symmetric in its arguments")
	// whatever happened, the caller's environment answers as before (persistence)
	after := c02Lookups(append(vars, pre), env0)
	verify(c02SameTerms(before, after), "unify changed the caller's environment")
	if !ok {
		reach("c02/fail", true)
		return
	}
	reach("c02/success", true)
	p1, p2 := vPlain(t1, env), vPlain(t2, env)
	verify(vIdenticalV(p1, p2), "unify: sides not identical after success")
	verify(t1.Compare(t2, env) == 0, "unify: compare/3 does not say = after success")
	// most general: the instantiated term is a variant of the reference mgu applied to it
	verify(vVariantV(p1, rResolve(t1, rs), &rRename{}, &rRename{}), "unify: result is not a variant of the most general unifier's instance")
	verify(vVariantV(vPlain(t1, env2), p1, &rRename{}, &rRename{}), "unify: swapped arguments give a different result")
	// idempotent: resolving again changes nothing
	verify(vIdenticalV(vPlain(p1, env), p1), "unify: substitution not idempotent")

	// clause-head unification agrees, in both directions: h(T1', Vars1') stored, h(T2, Out) called (and T2 stored, T1
	// called). The clause's own variables are exported through the second argument, so that what the head code binds
	// them to is observed as well.
	c02Head(vm, "c02h", c02Templates[i], t2, consts, env0)
	c02Head(vm, "c02g", c02Templates[j], t1, consts, env0)
}

func c02TermVars(t Term, acc []Variable) []Variable {
	switch x := t.(type) {
	case Variable:
		for _, v := range acc {
			if v == x {
				return acc
			}
		}
		return append(acc, x)
	case Compound:
		for i := 0; i < x.Arity(); i++ {
			acc = c02TermVars(x.Arg(i), acc)
		}
	}
	return acc
}

func c02Head(vm *VM, name string, headTemplate string, goal Term, consts *vConsts, env0 *Env) {
	// the head is parsed again from its template, so that it has its own variables and exactly the representation
	// the reader gives it (a double-quoted literal stays a string value, as in consulted text)
	ht, hv, err := vParseQuery(vm, "p("+headTemplate+").")
	verify(err == nil, "harness: head template does not parse")
	cp := vSubst(ht, consts, 2).(Compound).Arg(0)
	cvt := make([]Term, len(hv))
	for k, pv := range hv {
		cvt[k] = pv.Variable
	}
	okA, errA := Assertz(vm, NewAtom(name).Apply(cp, List(cvt...)), Success, nil).Force(context.Background())
	verify(okA && errA == nil, "harness: assertz failed")
	hs, hok := rUnify(cp, goal, nil)
	out := NewVariable()
	var got, gotOut Term
	okH, errH := Call(vm, NewAtom(name).Apply(goal, out), func(e *Env) *Promise {
		got, gotOut = vPlain(goal, e), vPlain(out, e)
		return Bool(true)
	}, env0).Force(context.Background())
	verify(errH == nil, "head unification raised an error")
	verify(okH == hok, "head unification: verdict differs from =/2 on a renamed copy")
	if okH {
		// goal instance and the clause variables' bindings, compared together so that sharing between them counts
		want := NewAtom("r").Apply(rResolve(goal, hs), rResolve(List(cvt...), hs))
		verify(vVariantV(NewAtom("r").Apply(got, gotOut), want, &rRename{}, &rRename{}), "head unification: result differs from the most general unifier's instance")
	}
}

// ---- representation independence through the constructors the system offers ----
//
// Each case is a goal that builds the same abstract list/string in two ways (A, B) and must succeed:
// the two are unifiable with no side binding, identical, order-equal, and behave alike against a third pattern.

var c02RepBuilders = []string{
	"L = [a, b]",
	"L = \"ab\"",
	"L = '.'(a, '.'(b, []))",
	"L = [a|T], T = [b]",
	"atom_chars(ab, L)",
	"append([a], [b], L)",
	"append(\"a\", \"b\", L)",
	"X = f(a, b), X =.. [_|L]",
	"findall(E, (E = a ; E = b), L)",
	"copy_term([a, b], L)",
	"L = [H|R], H = a, R = \"b\"",
	"length(L, 2), L = [a|_], L = [_, b]",
	"sort([b, a, b], L)",
}

var c02RepBuildersUni = []string{ // multi-byte text: byte/rune confusion shows here
	"L = ['é', b]",
	"L = \"éb\"",
	"atom_chars('éb', L)",
	"L = '.'('é', \"b\")",
	"append(\"é\", [b], L)",
	"atom_codes(C, [233, 98]), atom_chars(C, L)",
}

func c02RepGoal(a, b string) string {
	b = strings.ReplaceAll(b, "L", "M")
	for _, v := range []string{"T", "X", "E", "H", "R", "C"} {
		b = strings.ReplaceAll(b, v, v+"2")
	}
	return a + ", " + b + ", L = M, L == M, M == L, compare(=, L, M), \\+ L \\= M, unify_with_occurs_check(L, M), " +
		"L = [P|Q], M = [P2|Q2], P == P2, Q == Q2, length(L, N), length(M, N), subsumes_term(L, M), subsumes_term(M, L)."
}

// VH_C02_rep: inst indexes the pair (A, B) over the ASCII builders then the multi-byte builders.
func VH_C02_rep(vm *VM, inst int) {
	vm.doubleQuotes = doubleQuotesChars
	n := len(c02RepBuilders)
	var goal string
	if inst < n*n {
		goal = c02RepGoal(c02RepBuilders[inst/n], c02RepBuilders[inst%n])
	} else {
		inst -= n * n
		m := len(c02RepBuildersUni)
		goal = c02RepGoal(c02RepBuildersUni[inst/m], c02RepBuildersUni[inst%m])
	}
	note("case", goal)
	q, _, err := vParseQuery(vm, goal)
	verify(err == nil, "harness: goal does not parse: "+goal)
	r := vRunImpl(vm, q, nil, 1, nil)
	if r.err != nil {
		note("error", vErrString(r.err))
	}
	verify(r.status != "error", "representation goal raised an error: "+goal)
	verify(r.status == "stopped", "two constructions of the same list are not unifiable/identical/order-equal: "+goal)
}

func VH_C02_repN() int {
	return len(c02RepBuilders)*len(c02RepBuilders) + len(c02RepBuildersUni)*len(c02RepBuildersUni)
}

// ---- one inductive step of the binding tree (persistent red-black tree) ----

// c02Tree builds an arbitrary tree of black-height <= 2 from symbolic keys/colours/presence; returns nil if absent.
func c02Node(name string, depth int) *Env {
	if depth == 0 || !nondetBool(name+"_present") {
		return nil
	}
	n := &Env{}
	if nondetBool(name + "_red") {
		n.color = red
	} else {
		n.color = black
	}
	n.key = envKey(nondetInt64(name + "_key"))
	n.value = Integer(nondetInt64(name + "_val"))
	n.left = c02Node(name+"l", depth-1)
	n.right = c02Node(name+"r", depth-1)
	return n
}

// c02Inv: binary-search-tree order within (lo, hi). Colours are deliberately unconstrained: trees reachable by
// bind histories are not always balanced (balance() misses a right-side red-red pair when the left child is also
// red), which costs speed but not correctness; the property needs the ordering only.
func c02Inv(n *Env, lo, hi int64, hasLo, hasHi bool) bool {
	if n == nil {
		return true
	}
	k := int64(n.key)
	ok := true
	if hasLo {
		ok = bAnd(ok, k > lo)
	}
	if hasHi {
		ok = bAnd(ok, k < hi)
	}
	if !decide(ok) {
		return false
	}
	return c02Inv(n.left, lo, k, hasLo, true) && c02Inv(n.right, k, hi, true, hasHi)
}

// decide forces a (possibly symbolic) bool to a concrete branch.
func decide(b bool) bool {
	if b {
		return true
	}
	return false
}

type c02KV struct {
	k envKey
	v Term
}

func c02Dump(n *Env, acc []c02KV) []c02KV {
	if n == nil {
		return acc
	}
	acc = c02Dump(n.left, acc)
	acc = append(acc, c02KV{n.key, n.value})
	return c02Dump(n.right, acc)
}

type c02Shape struct {
	ptr   *Env
	color color
	key   envKey
	val   Term
	l, r  *Env
}

func c02Snapshot(n *Env, acc []c02Shape) []c02Shape {
	if n == nil {
		return acc
	}
	acc = append(acc, c02Shape{n, n.color, n.key, n.value, n.left, n.right})
	acc = c02Snapshot(n.left, acc)
	return c02Snapshot(n.right, acc)
}

// VH_C02_envStep: from ANY search tree (up to 3 levels, any colours) one bind keeps the ordering invariant, maps the key, keeps every
// other key, and leaves the input tree untouched. Histories of any length are covered inductively.
func VH_C02_envStep(inst int) {
	root := c02Node("n", 2+inst) // inst 0: up to 3 nodes (quick), inst 1: up to 7 nodes (thorough)
	assume(root != nil)
	assume(c02Inv(root, 0, 0, false, false))
	v := Variable(nondetInt64("v"))
	assume(bAnd(int64(v) > 0, int64(v) < 1<<40))
	val := Integer(nondetInt64("newval"))
	before := c02Dump(root, nil)
	shape := c02Snapshot(root, nil)

	out := root.bind(v, val)

	// input untouched (persistence)
	for _, s := range shape {
		same := bAnd(bAnd(s.ptr.color == s.color, s.ptr.key == s.key), bAnd(s.ptr.left == s.l, s.ptr.right == s.r))
		verify(bAnd(same, s.ptr.value == s.val), "bind mutated the input tree")
	}
	// invariant
	verify(c02Inv(out, 0, 0, false, false), "bind: search-tree order broken")
	// mapping
	got, found := out.lookup(v)
	verify(found, "bind: key not found afterwards")
	verify(got == Term(val), "bind: key maps to a different value")
	k := newEnvKey(v)
	after := c02Dump(out, nil)
	// every other key keeps its value and no key appears from nowhere
	for _, b := range before {
		if decide(b.k == k) {
			continue
		}
		present := false
		for _, a := range after {
			if decide(a.k == b.k) {
				present = true
				verify(a.v == b.v, "bind: another key changed its value")
			}
		}
		verify(present, "bind: another key was lost")
	}
	extra := 0
	for _, a := range after {
		seen := decide(a.k == k)
		for _, b := range before {
			if decide(a.k == b.k) {
				seen = true
			}
		}
		if !seen {
			extra++
		}
	}
	verify(extra == 0, "bind: a key appeared that was never bound")
	reach("c02/envstep", true)
}

//go:build verif

package engine

// C19 — a stream is one forward cursor: peeks do not consume, nothing is skipped or repeated.

import (
	"time"
	"io/fs"
	"strings"
	"bytes"
	"context"
	"io"
)

// c19Reader is a host-provided reader: it hands out the source in chunks of harness-chosen sizes and reports the
// end either together with the last bytes (n > 0, io.EOF) or separately (0, io.EOF).
type c19Reader struct {
	data       []byte
	pos        int
	chunks     []int
	k          int
	eofWithData bool
}

func (r *c19Reader) Read(p []byte) (int, error) {
	if r.pos >= len(r.data) {
		return 0, io.EOF
	}
	n := len(r.data) - r.pos
	if r.k < len(r.chunks) && r.chunks[r.k] < n {
		n = r.chunks[r.k]
	}
	r.k++
	if n > len(p) {
		n = len(p)
	}
	copy(p, r.data[r.pos:r.pos+n])
	r.pos += n
	if r.pos >= len(r.data) && r.eofWithData {
		return n, io.EOF
	}
	return n, nil
}

const (
	c19Get = iota
	c19Peek
	c19EOS      // stream_property(S, end_of_stream(E))
	c19Position // stream_property(S, position(P))
	c19AtEnd    // at_end_of_stream(S)
	c19NOps
)

type c19Model struct {
	data      []byte
	i         int
	past      bool // end_of_file has been delivered by a consuming read
	ambiguous bool // a peek at the end was made: at/past is left open afterwards; only "nothing is delivered again" is compared
}

var (
	c19AtomEOF = NewAtom("end_of_file")
	c19AtomAt  = NewAtom("at")
	c19AtomPast = NewAtom("past")
	c19AtomNot = NewAtom("not")
)

// VH_C19: inst = reader kind (0 bytes.Reader text, 1 chunked host reader text, 2 bytes.Reader binary,
// 3 chunked host reader binary, 4 concrete multi-byte text). Source bytes symbolic, operations by case split.
// c19File is an in-memory source that is a file (fs.File): the stream can ask it for its size.
type c19File struct {
	bytes.Reader
	size int64
}

type c19Info struct{ size int64 }

func (i c19Info) Name() string       { return "mem" }
func (i c19Info) Size() int64        { return i.size }
func (i c19Info) Mode() fs.FileMode  { return 0 }
func (i c19Info) ModTime() time.Time { return time.Time{} }
func (i c19Info) IsDir() bool        { return false }
func (i c19Info) Sys() interface{}   { return nil }

func (f *c19File) Stat() (fs.FileInfo, error) { return c19Info{f.size}, nil }
func (f *c19File) Close() error               { return nil }

func VH_C19(vm *VM, inst int, nops int) {
	fileLike := inst >= 5 // 5: file-like text source, 6: file-like binary source
	if fileLike {
		inst = (inst - 5) * 2 // behaves as 0 / 2 with a source that knows its size
	}
	binary := inst == 2 || inst == 3
	var data []byte
	if inst == 4 {
		data = []byte("aé€")
	} else {
		n := choice("len", 4)
		data = make([]byte, n)
		for i := range data {
			data[i] = nondetUint8("d" + string(rune('0'+i)))
			if !binary {
				assume(bAnd(data[i] < 0x80, data[i] != 0)) // text: valid UTF-8 (ASCII); NUL excluded
			}
		}
	}
	var src io.Reader
	if inst == 1 || inst == 3 {
		r := &c19Reader{data: data, eofWithData: choice("eofWithData", 2) == 1}
		for i := 0; i < len(data); i++ {
			r.chunks = append(r.chunks, 1+choice("chunk", 2))
		}
		src = r
	} else if fileLike {
		f := &c19File{size: int64(len(data))}
		f.Reader = *bytes.NewReader(data)
		src = f
	} else {
		src = bytes.NewReader(data)
	}
	var s *Stream
	if binary {
		s = NewInputBinaryStream(src)
	} else {
		s = NewInputTextStream(src)
	}
	s.vm = vm
	vm.streams.add(s)
	switch choice("eof_action", 3) {
	case 0:
		s.eofAction = eofActionEOFCode
	case 1:
		s.eofAction = eofActionError
	case 2:
		s.eofAction = eofActionReset
	}
	m := &c19Model{data: data}
	// the operations run as ONE conjunction (so that an operation's effect on the cursor is visible to the next
	// goal of the same body), results collected in variables
	ops := make([]int, nops)
	outs := make([]Variable, nops)
	goals := make([]Term, nops)
	for k := range ops {
		ops[k] = choice("op", c19NOps)
		outs[k] = NewVariable()
		switch ops[k] {
		case c19Get:
			if binary {
				goals[k] = NewAtom("get_byte").Apply(s, outs[k])
			} else {
				goals[k] = NewAtom("get_char").Apply(s, outs[k])
			}
		case c19Peek:
			if binary {
				goals[k] = NewAtom("peek_byte").Apply(s, outs[k])
			} else {
				goals[k] = NewAtom("peek_char").Apply(s, outs[k])
			}
		case c19EOS:
			goals[k] = NewAtom("stream_property").Apply(s, NewAtom("end_of_stream").Apply(outs[k]))
		case c19Position:
			goals[k] = NewAtom("stream_property").Apply(s, NewAtom("position").Apply(outs[k]))
		case c19AtEnd:
			goals[k] = vDisj(xThen.Apply(NewAtom("at_end_of_stream").Apply(s), xEqual.Apply(outs[k], xTrue)), xEqual.Apply(outs[k], xFalse))
		}
	}
	// one query; every goal is followed by emit(Out) so that the results of the completed steps are known even
	// when a later step fails or raises an error
	var trace []Term
	vRegisterEmit(vm, &trace)
	var seq []Term
	for k := range goals {
		seq = append(seq, goals[k], rAtomEmit.Apply(outs[k]))
	}
	run := vRunImpl(vm, vConj(seq...), nil, 1, nil)
	// oracle
	for k, op := range ops {
		atEnd := m.i >= len(m.data)
		// per-step view: steps before len(trace) completed; step len(trace) is where the run failed/erred (if it did)
		r := vImplRun{status: "stopped"}
		var got Term
		if k < len(trace) {
			got = trace[k]
		} else if k == len(trace) {
			r.status = run.status
			if r.status == "stopped" {
				r.status = "exhausted"
			}
		} else {
			break // not reached
		}
		if m.ambiguous {
			// After a peek at the end the state (at or past) is left open, so whether the next read delivers end_of_file
			// or raises an error is not compared. What still holds: the source is used up, so no operation may deliver a
			// character/byte of it again, and the position cannot go back.
			if r.status != "stopped" {
				break
			}
			switch op {
			case c19Get, c19Peek:
				c19VerifyEOF(binary, got, "after the end was reached a read/peek delivered a character of the source again")
			case c19Position:
				verify(got == Term(Integer(len(m.data))), "after the end was reached the position went back")
			}
			continue
		}
		switch op {
		case c19Get, c19Peek:
			if !atEnd {
				verify(r.status == "stopped", "an input operation failed or raised an error although input remains")
				if binary {
					verify(got == Term(Integer(m.data[m.i])), "a read/peek did not deliver the byte at the cursor")
				} else if inst == 4 {
					ru, size := c19DecodeRune(m.data[m.i:])
					verify(got == Term(Atom(ru)), "a read/peek did not deliver the character at the cursor")
					if op == c19Get {
						m.i += size - 1
					}
				} else {
					verify(got == Term(Atom(m.data[m.i])), "a read/peek did not deliver the character at the cursor")
				}
				if op == c19Get {
					m.i++
				}
				continue
			}
			// at the end of the source
			if op == c19Peek {
				if r.status == "stopped" {
					c19VerifyEOF(binary, got, "peek at the end did not deliver end_of_file / -1")
				}
				m.ambiguous = true // state after a peek at the end: left open
				continue
			}
			if !m.past {
				verify(r.status == "stopped", "the first read at the end failed or raised an error instead of delivering end_of_file")
				c19VerifyEOF(binary, got, "the first read at the end did not deliver end_of_file / -1")
				m.past = true
				continue
			}
			switch s.eofAction {
			case eofActionError:
				verify(r.status == "error", "eof_action(error): reading past the end must raise an error")
				return
			default:
				verify(r.status == "stopped", "reading past the end with eof_action eof_code/reset must deliver end_of_file again")
				c19VerifyEOF(binary, got, "reading past the end did not deliver end_of_file / -1")
			}
		case c19EOS:
			verify(r.status == "stopped", "stream_property(end_of_stream) failed")
			if !atEnd {
				verify(got == Term(c19AtomNot), "end_of_stream is at/past while input remains")
			}
			if m.past && s.eofAction != eofActionReset {
				verify(got == Term(c19AtomPast), "end_of_stream is not past although end_of_file was delivered")
			}
		case c19AtEnd:
			verify(r.status == "stopped", "at_end_of_stream raised an error")
			if !atEnd {
				verify(got == Term(xFalse), "at_end_of_stream holds while input remains")
			}
			if m.past && s.eofAction != eofActionReset {
				verify(got == Term(xTrue), "at_end_of_stream does not hold although end_of_file was delivered")
			}
		case c19Position:
			verify(r.status == "stopped", "stream_property(position) failed")
			verify(got == Term(Integer(m.i)), "position is not the number of bytes consumed")
		}
	}
	reach("c19/done", true)
}

func c19VerifyEOF(binary bool, got Term, msg string) {
	if binary {
		verify(got == Term(Integer(-1)), msg)
	} else {
		verify(got == Term(c19AtomEOF), msg)
	}
}

func c19DecodeRune(b []byte) (rune, int) {
	for n := 1; n <= 4 && n <= len(b); n++ {
		rs := []rune(string(b[:n]))
		if len(rs) == 1 && rs[0] != 0xFFFD {
			return rs[0], n
		}
	}
	return 0xFFFD, 1
}

// ---- output: put_char / nl / write / put_byte reach the sink completely and in program order ----

type c19Sink struct {
	got   []byte
	short []int // short-write plan: accept at most short[k] bytes on the k-th call (0 = all)
	k     int
}

func (w *c19Sink) Write(p []byte) (int, error) {
	n := len(p)
	if w.k < len(w.short) && w.short[w.k] > 0 && w.short[w.k] < n {
		n = w.short[w.k]
	}
	w.k++
	w.got = append(w.got, p[:n]...)
	if n < len(p) {
		return n, io.ErrShortWrite
	}
	return n, nil
}

// VH_C19_out: a sequence of output goals against a full-write sink must deliver the concatenation in order.
func VH_C19_out(vm *VM, inst int) {
	sink := &c19Sink{}
	s := NewOutputTextStream(sink)
	s.vm = vm
	vm.streams.add(s)
	var want []byte
	var goals []Term
	n := 1 + choice("nops", 3)
	for k := 0; k < n; k++ {
		c := nondetUint8("c" + string(rune('0'+k)))
		assume(bAnd(c >= 'a', c <= 'z'))
		switch choice("out", 4) {
		case 0:
			goals = append(goals, NewAtom("put_char").Apply(s, Atom(c)))
			want = append(want, c)
		case 1:
			goals = append(goals, NewAtom("nl").Apply(s))
			want = append(want, '\n')
		case 2:
			goals = append(goals, NewAtom("write").Apply(s, NewAtom("f").Apply(Atom(c), Integer(1))))
			want = append(want, 'f', '(', c, ',', '1', ')')
		case 3:
			goals = append(goals, NewAtom("write").Apply(s, Atom(c)), NewAtom("put_char").Apply(s, Atom(c)))
			want = append(want, c, c)
		}
	}
	r := vRunImpl(vm, vConj(goals...), nil, 1, nil)
	verify(r.status == "stopped", "an output goal failed or raised an error")
	verify(len(sink.got) == len(want), "the sink did not receive exactly the bytes written")
	for i := range want {
		verify(sink.got[i] == want[i], "the sink received the output out of order or altered")
	}
	_, err := FlushOutput(vm, s, Success, nil).Force(context.Background())
	verify(err == nil, "flush_output raised an error")
	reach("c19/out", true)
}

// ---- read_term/2 among the character operations: nothing is lost behind the end token ----

var c19Terms = []string{"a", "aa", "aaa", "aaaa", "f(a)", "foo(a)", " X = 1", "  b", "[a, b]", "'q r'", "1", "12345", "a:-b", "\n\nab", "/* c */ ab", "% c\nab", "\"ab\"", "0'a"}
var c19Rests = []string{"\nnext.\n", "\n%comment\nbar.\n", " b. ", "\t'x y'.", "\n", "%\nbar.\n"}

// VH_C19_read: text = TERM "." REST on a text stream (inst 0: strings.Reader, 1: host reader delivering chunks of 1..3
// bytes by case split); read(T1), then position, peek_char, get_char, then read(T2): the cursor stands right behind
// the end token, so the position is the length of TERM plus 1, peek/get deliver the first character of REST, and the
// second read delivers REST's term (or end_of_file).
func VH_C19_read(vm *VM, inst int) {
	term := c19Terms[choice("term", len(c19Terms))]
	rest := c19Rests[choice("rest", len(c19Rests))]
	text := term + "." + rest
	note("text", text)
	var src io.Reader = strings.NewReader(text)
	if inst == 1 {
		src = &c19Reader{data: []byte(text), chunks: []int{1 + choice("chunk0", 3), 1 + choice("chunk1", 3), 3, 2, 1, 3}}
	}
	s := NewInputTextStream(src)
	s.vm = vm
	vm.streams.add(s)
	s.eofAction = eofActionEOFCode
	t1, pos, pk, gt, t2 := NewVariable(), NewVariable(), NewVariable(), NewVariable(), NewVariable()
	goal := vConj(
		NewAtom("read").Apply(s, t1),
		NewAtom("stream_property").Apply(s, NewAtom("position").Apply(pos)),
		NewAtom("peek_char").Apply(s, pk),
		NewAtom("get_char").Apply(s, gt),
		NewAtom("read").Apply(s, t2),
	)
	r := vRunImpl(vm, goal, []Variable{t1, pos, pk, gt, t2}, 1, nil)
	verify(r.status == "stopped", "reading two terms with character operations in between failed or raised an error")
	// expected terms: parsed separately
	p1 := NewParser(vm, strings.NewReader(term+" ."))
	w1, err := p1.Term()
	verify(err == nil, "harness: term does not parse")
	verify(decide(vVariantV(r.answers[0][0], w1, &rRename{}, &rRename{})), "the first read delivers a different term")
	verify(r.answers[0][1] == Term(Integer(len(term)+1)), "after read/1 the position is not right behind the end token")
	first := []rune(rest)[0]
	verify(r.answers[0][2] == Term(Atom(first)), "peek_char after read/1 does not deliver the character right behind the end token")
	verify(r.answers[0][3] == Term(Atom(first)), "get_char after read/1 does not deliver the character right behind the end token")
	p2 := NewParser(vm, strings.NewReader(rest[len(string(first)):]))
	var w2 Term = NewAtom("end_of_file")
	if p2.More() {
		w2, err = p2.Term()
		if err != nil {
			return // the remainder without its first character is not a term (e.g. the comment sign was consumed): nothing to compare
		}
	}
	verify(decide(vVariantV(r.answers[0][4], w2, &rRename{}, &rRename{})), "the second read does not deliver the next term of the text")
	reach("c19/read", true)
}

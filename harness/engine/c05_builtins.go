//go:build verif

package engine

// C05 (b) — every registered predicate x argument shapes: the call returns, no Go panic reaches the caller,
// every error is error(Formal, Context) with an ISO formal term.

import (
	"context"
	"sort"
	"strings"
)

type vPI struct {
	Name  Atom
	Arity int
}

// VProcedures lists the predicates registered in vm (name order), read from the procedure table itself.
func VProcedures(vm *VM) []vPI {
	var out []vPI
	for pi := range vm.procedures {
		out = append(out, vPI{pi.name, int(pi.arity)})
	}
	sort.Slice(out, func(i, j int) bool {
		a, b := out[i].Name.String(), out[j].Name.String()
		if a != b {
			return a < b
		}
		return out[i].Arity < out[j].Arity
	})
	return out
}

var c05Excluded = map[string]bool{
	"halt/0": true, "halt/1": true, // os.Exit
	"consult/1": true, "open/3": true, "open/4": true, // operating system files
	"emit/1": true,
}

const c05NShapes = 14

// c05Shape builds argument shape s with symbolic leaves.
func c05Shape(vm *VM, s int, tag string) Term {
	switch s {
	case 0:
		return NewVariable()
	case 1:
		return NewAtom("foo")
	case 2:
		return Integer(nondetInt64("i" + tag))
	case 3:
		return Float(nondetFloat64("f" + tag))
	case 4:
		return NewAtom("f").Apply(NewAtom("a"), Integer(nondetInt64("j"+tag)))
	case 5:
		return List(NewAtom("a"), NewAtom("b"))
	case 6:
		return PartialList(NewVariable(), NewAtom("a"))
	case 7:
		return CharList("ab")
	case 8: // evaluable expressions with symbolic operands (shift amounts of any sign and size)
		return NewAtom("<<").Apply(Integer(nondetInt64("a"+tag)), Integer(nondetInt64("s"+tag)))
	case 9:
		return NewAtom(">>").Apply(Integer(nondetInt64("a"+tag)), Integer(nondetInt64("s"+tag)))
	case 10:
		return vm.output // a stream term
	case 11:
		return NewAtom("true") // callable
	case 12:
		return Cons(NewAtom("a"), NewAtom("b")) // improper list
	case 13:
		return List(NewAtom("k").Apply(Integer(1)), NewAtom("-").Apply(NewAtom("k"), NewVariable()))
	}
	return NewAtom("[]")
}

var c05FormalArity = map[string]int{
	"instantiation_error": 0, "type_error": 2, "domain_error": 2, "existence_error": 2, "permission_error": 3,
	"representation_error": 1, "evaluation_error": 1, "resource_error": 1, "syntax_error": 1, "system_error": 0,
}

var c05ValidTypes = "atom atomic byte callable character compound evaluable float in_byte in_character integer list number pair predicate_indicator variable"
var c05ValidDomains = "character_code_list close_option flag_value io_mode non_empty_list not_less_than_zero operator_priority operator_specifier prolog_flag read_option source_sink stream stream_option stream_or_alias stream_position stream_property write_option order"

func c05InList(list, w string) bool {
	for _, x := range strings.Split(list, " ") {
		if x == w {
			return true
		}
	}
	return false
}

// c05CheckError: err must be an Exception error(Formal, _) with an ISO formal term; returns a description if not.
func c05CheckError(err error) string {
	ex, ok := err.(Exception)
	if !ok {
		if strings.HasPrefix(err.Error(), "panic:") {
			return "residue of a recovered Go panic: " + err.Error()
		}
		return "a Go error that is not a Prolog error term: " + err.Error()
	}
	t := ex.Term()
	c, ok := t.(Compound)
	if !ok || c.Functor() != xError || c.Arity() != 2 {
		return "exception is not error(Formal, Context)"
	}
	var name string
	ar := 0
	switch f := c.Arg(0).(type) {
	case Atom:
		name = f.String()
	case Compound:
		name, ar = f.Functor().String(), f.Arity()
	default:
		return "Formal is not callable"
	}
	want, known := c05FormalArity[name]
	if !known || want != ar {
		return "Formal is not an ISO formal error term: " + name
	}
	if f, ok := c.Arg(0).(Compound); ok {
		switch name {
		case "type_error":
			if a, ok := f.Arg(0).(Atom); !ok || !c05InList(c05ValidTypes, a.String()) {
				return "type_error names no valid type"
			}
		case "domain_error":
			if a, ok := f.Arg(0).(Atom); !ok || !c05InList(c05ValidDomains, a.String()) {
				return "domain_error names no valid domain"
			}
		}
	}
	return ""
}

// VH_C05_builtins: inst indexes the predicate; shape vectors by case split; leaves symbolic.
func VH_C05_builtins(vm *VM, inst int, quick bool) {
	procs := VProcedures(vm)
	if inst >= len(procs) {
		return
	}
	p := procs[inst]
	key := p.Name.String() + "/" + string(rune('0'+p.Arity))
	note("predicate", key)
	if c05Excluded[key] {
		reach("c05/excluded", true)
		return
	}
	nshapes := c05NShapes
	if quick {
		nshapes = 10
	}
	args := make([]Term, p.Arity)
	switch {
	case p.Arity <= 2:
		for i := range args {
			args[i] = c05Shape(vm, choice("shape", nshapes), string(rune('0'+i)))
		}
	default:
		// one argument position ranges over every shape, the others share a base shape (unbound / atom / integer)
		pos := choice("pos", p.Arity)
		base := choice("base", 3)
		for i := range args {
			if i == pos {
				args[i] = c05Shape(vm, choice("shape", nshapes), string(rune('0'+i)))
			} else {
				args[i] = c05Shape(vm, base, string(rune('0'+i)))
			}
		}
	}
	var goal Term = p.Name
	if p.Arity > 0 {
		goal = p.Name.Apply(args...)
	}
	answers := 0
	panicked := false
	var err error
	func() {
		defer func() {
			if r := recover(); r != nil {
				panicked = true
			}
		}()
		_, err = vm.Arrive(p.Name, args, func(*Env) *Promise {
			answers++
			if answers >= 3 {
				return Bool(true)
			}
			return Bool(false)
		}, nil).Force(context.Background())
	}()
	_ = goal
	verify(!panicked, "a Go panic escaped the call of "+key)
	if err != nil && key == "throw/1" {
		// throw/1 raises the caller's ball, whatever it is
		reach("c05/error", true)
		return
	}
	if err != nil {
		why := c05CheckError(err)
		if why != "" {
			note("why", why)
		}
		verify(why == "", "the error returned by "+key+" is not an ISO error term")
		reach("c05/error", true)
	} else {
		reach("c05/returned", true)
	}
}

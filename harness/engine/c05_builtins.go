//go:build verif

package engine

// C05 (b) — every registered predicate x argument shapes: the call returns, no Go panic reaches the caller,
// every error is error(Formal, Context) with an ISO formal term.

import (
	"context"
	"sort"
	"strings"
)

type vPI struct {
	Name  Atom
	Arity int
}

// VProcedures lists the predicates registered in vm (name order), read from the procedure table itself.
func VProcedures(vm *VM) []vPI {
	var out []vPI
	for pi := range vm.procedures {
		out = append(out, vPI{pi.name, int(pi.arity)})
	}
	sort.Slice(out, func(i, j int) bool {
		a, b := out[i].Name.String(), out[j].Name.String()
		if a != b {
			return a < b
		}
		return out[i].Arity < out[j].Arity
	})
	return out
}

var c05Excluded = map[string]bool{
	"halt/0": true, "halt/1": true, // os.Exit
	"consult/1": true, "open/3": true, "open/4": true, // operating system files
	"emit/1": true,
}

const c05NShapes = 14

// c05Shape builds argument shape s with symbolic leaves.
func c05Shape(vm *VM, s int, tag string) Term {
	switch s {
	case 0:
		return NewVariable()
	case 1:
		return NewAtom("foo")
	case 2:
		return Integer(nondetInt64("i" + tag))
	case 3:
		return Float(nondetFloat64("f" + tag))
	case 4:
		return NewAtom("f").Apply(NewAtom("a"), Integer(nondetInt64("j"+tag)))
	case 5:
		return List(NewAtom("a"), NewAtom("b"))
	case 6:
		return PartialList(NewVariable(), NewAtom("a"))
	case 7:
		return CharList("ab")
	case 8: // evaluable expressions with symbolic operands (shift amounts of any sign and size)
		return NewAtom("<<").Apply(Integer(nondetInt64("a"+tag)), Integer(nondetInt64("s"+tag)))
	case 9:
		return NewAtom(">>").Apply(Integer(nondetInt64("a"+tag)), Integer(nondetInt64("s"+tag)))
	case 10:
		return vm.output // a stream term
	case 11:
		return NewAtom("true") // callable
	case 12:
		return Cons(NewAtom("a"), NewAtom("b")) // improper list
	case 13:
		return List(NewAtom("k").Apply(Integer(1)), NewAtom("-").Apply(NewAtom("k"), NewVariable()))
	}
	return NewAtom("[]")
}

var c05FormalArity = map[string]int{
	"instantiation_error": 0, "type_error": 2, "domain_error": 2, "existence_error": 2, "permission_error": 3,
	"representation_error": 1, "evaluation_error": 1, "resource_error": 1, "syntax_error": 1, "system_error": 0,
}

var c05ValidTypes = "atom atomic byte callable character compound evaluable float in_byte in_character integer list number pair predicate_indicator variable"
var c05ValidDomains = "character_code_list close_option flag_value io_mode non_empty_list not_less_than_zero operator_priority operator_specifier prolog_flag read_option source_sink stream stream_option stream_or_alias stream_position stream_property write_option order"

func c05InList(list, w string) bool {
	for _, x := range strings.Split(list, " ") {
		if x == w {
			return true
		}
	}
	return false
}

// c05CheckError: err must be an Exception error(Formal, _) with an ISO formal term; returns a description if not.
func c05CheckError(err error) string {
	ex, ok := err.(Exception)
	if !ok {
		if strings.HasPrefix(err.Error(), "panic:") {
			return "residue of a recovered Go panic: " + err.Error()
		}
		return "a Go error that is not a Prolog error term: " + err.Error()
	}
	t := ex.Term()
	c, ok := t.(Compound)
	if !ok || c.Functor() != xError || c.Arity() != 2 {
		return "exception is not error(Formal, Context)"
	}
	var name string
	ar := 0
	switch f := c.Arg(0).(type) {
	case Atom:
		name = f.String()
	case Compound:
		name, ar = f.Functor().String(), f.Arity()
	default:
		return "Formal is not callable"
	}
	want, known := c05FormalArity[name]
	if !known || want != ar {
		return "Formal is not an ISO formal error term: " + name
	}
	if f, ok := c.Arg(0).(Compound); ok {
		switch name {
		case "type_error":
			if a, ok := f.Arg(0).(Atom); !ok || !c05InList(c05ValidTypes, a.String()) {
				return "type_error names no valid type"
			}
		case "domain_error":
			if a, ok := f.Arg(0).(Atom); !ok || !c05InList(c05ValidDomains, a.String()) {
				return "domain_error names no valid domain"
			}
		}
	}
	return ""
}

// VH_C05_builtins: inst indexes the predicate; shape vectors by case split; leaves symbolic.
func VH_C05_builtins(vm *VM, inst int, quick bool) {
	procs := VProcedures(vm)
	if inst >= len(procs) {
		return
	}
	p := procs[inst]
	key := p.Name.String() + "/" + string(rune('0'+p.Arity))
	note("predicate", key)
	if c05Excluded[key] {
		reach("c05/excluded", true)
		return
	}
	nshapes := c05NShapes
	if quick {
		nshapes = 10
	}
	args := make([]Term, p.Arity)
	switch {
	case p.Arity <= 2:
		for i := range args {
			args[i] = c05Shape(vm, choice("shape", nshapes), string(rune('0'+i)))
		}
	default:
		// one argument position ranges over every shape, the others share a base shape (unbound / atom / integer)
		pos := choice("pos", p.Arity)
		base := choice("base", 3)
		for i := range args {
			if i == pos {
				args[i] = c05Shape(vm, choice("shape", nshapes), string(rune('0'+i)))
			} else {
				args[i] = c05Shape(vm, base, string(rune('0'+i)))
			}
		}
	}
	var goal Term = p.Name
	if p.Arity > 0 {
		goal = p.Name.Apply(args...)
	}
	answers := 0
	panicked := false
	var err error
	func() {
		defer func() {
			if r := recover(); r != nil {
				panicked = true
			}
		}()
		_, err = vm.Arrive(p.Name, args, func(*Env) *Promise {
			answers++
			if answers >= 3 {
				return Bool(true)
			}
			return Bool(false)
		}, nil).Force(context.Background())
	}()
	_ = goal
	verify(!panicked, "a Go panic escaped the call of "+key)
	if err != nil && key == "throw/1" {
		// throw/1 raises the caller's ball, whatever it is
		reach("c05/error", true)
		return
	}
	if err != nil {
		why := c05CheckError(err)
		if why != "" {
			note("why", why)
		}
		verify(why == "", "the error returned by "+key+" is not an ISO error term")
		reach("c05/error", true)
	} else {
		reach("c05/returned", true)
	}
}

// ---- composition: a term built by one predicate is handed to another ----
//
// The matrix above gives every predicate fresh argument terms. Terms that built-ins construct have other
// representations (string values, lists with a known prefix and an open tail, nested ones); this family feeds every
// producer's result to every consumer.

var c05Producers = []string{
	"L = [a, b]",
	"L = \"ab\"",
	"L = '.'(a, '.'(b, []))",
	"L = [a|T0], T0 = [b]",
	"atom_chars(ab, L)",
	"atom_codes(ab, L)",
	"append([a], [b], L)",
	"append(\"a\", \"b\", L)",
	"append(\"ab\", _, L)",
	"atom_chars(ab, Cs0), append(Cs0, _, L)",
	"append('.'(a, '.'(b, [])), _, L)",
	"append([a, b], [c], L0), append(L0, _, L)",
	"append([a], T1, L), T1 = \"b\"",
	"X0 = f(a, b), X0 =.. [_|L]",
	"findall(E0, (E0 = a ; E0 = b), L)",
	"copy_term([a, B0|B0], L)",
	"length(L, 2)",
	"sort([b, a, b], L)",
	"L = [a, b|_]",
	"L = f(\"ab\", [a|_], g(_))",
	"atom_length(abc, L)",
	"L = 'hello world'",
	"L = 1.5",
	"L = \"\"",
}

var c05Consumers = []string{
	"assertz(cmp_p(L))", "asserta(cmp_p(L, L))", "assertz((cmp_q(X) :- X = L))", "assertz((cmp_r(L) :- true))", "assertz((cmp_s :- L))", "retract(cmp_p(L))",
	"retract((cmp_r(L) :- _))", "clause(cmp_r(L), _)", "atom_chars(_, L)", "atom_codes(_, L)", "atom_chars(L, _)", "number_codes(_, L)", "number_chars(_, L)",
	"atom_length(L, _)", "length(L, _)", "sort(L, _)", "msort(L, _)", "keysort(L, _)", "sort(0, @>=, L, _)", "L =.. _", "_ =.. L", "copy_term(L, _)",
	"write(L)", "writeq(L)", "write_canonical(L)", "write_term(L, [quoted(true), ignore_ops(true)])", "term_variables(L, _)", "functor(L, _, _)",
	"arg(1, L, _)", "arg(2, L, _)", "sub_atom(abc, _, _, _, L)", "atom_concat(L, _, abc)", "findall(X, once(member(X, L)), _)", "append(L, [z], _)", "append(_, L, [a, b, c])",
	"nth0(0, L, _)", "nth1(_, L, b)", "select(a, L, _)", "X is L", "X is L + 1", "compare(_, L, [a])", "L == [a, b]", "L @< [a, c]", "ground(L)", "acyclic_term(L)",
	"subsumes_term(L, [a, b])", "subsumes_term([_|_], L)", "unify_with_occurs_check(L, [a|_])", "L = [_, _|_]", "catch(throw(L), B, true)", "call(L)", "\\+ L",
	"findall(L, true, _)", "bagof(X, once(member(X, L)), _)", "setof(X-Y, once(member(X-Y, L)), _)", "op(200, xfx, L)", "set_prolog_flag(double_quotes, L)", "char_code(L, _)",
	"phrase(L, [a, b])", "phrase(cmp_g, L)", "phrase(cmp_g, L, _)", "expand_term((cmp_h --> L), _)", "atom_to_term_missing(L)", "consult(L)", "number_codes(L, _)",
	"between(1, L, _)", "succ(L, _)", "char_conversion(L, a)", "current_op(_, _, L)", "current_prolog_flag(L, _)", "stream_property(_, alias(L))", "put_char(L)", "nl(L)", "close(L)",
	"read_term(L, _, [])", "write_term(a, L)", "halt_missing(L)",
}

// VH_C05_compose: inst = producer; the consumer by case split.
func VH_C05_compose(vm *VM, inst int) {
	vm.doubleQuotes = doubleQuotesChars
	ok, err := Assertz(vm, atomIf.Apply(NewAtom("cmp_g").Apply(NewVariable(), NewVariable()), NewAtom("true")), Success, nil).Force(context.Background())
	verify(ok && err == nil, "harness: setup failed")
	goal := c05Producers[inst] + ", " + c05Consumers[choice("consumer", len(c05Consumers))] + "."
	note("goal", goal)
	q, _, perr := vParseQuery(vm, goal)
	verify(perr == nil, "harness: goal does not parse: "+goal)
	r := vRunImplNoDrop(vm, q, 2)
	if r != nil {
		msg := c05CheckError(r)
		verify(msg == "", "a composed goal: "+msg)
	}
	reach("c05/compose", true)
}

// vRunImplNoDrop runs goal for at most max answers and returns its error (no path is dropped on resource errors:
// they are legitimate outcomes here).
func vRunImplNoDrop(vm *VM, goal Term, max int) error {
	n := 0
	_, err := Call(vm, goal, func(env *Env) *Promise {
		n++
		return Bool(n >= max)
	}, nil).Force(context.Background())
	return err
}

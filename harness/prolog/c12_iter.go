//go:build verif

package prolog

// C12 — the Solutions iterator never blocks, counts answers exactly and stops on Close.
// C13 — cancelling the context stops any execution promptly; the interpreter stays usable.

import (
	"context"
	"runtime"

	"github.com/ichiban/prolog/engine"
)

func init() {
	vHarnesses["H_C12_iter"] = H_C12_iter
	vHarnesses["H_C12_two"] = H_C12_two
	vHarnesses["H_C12_queries"] = H_C12_queries
	vHarnesses["H_C12_lazy"] = H_C12_lazy
	vHarnesses["H_C12_db"] = H_C12_db
}

type c12Gen struct {
	n      int // answers before the end
	ending int // 0 fail, 1 throw, 2 never ends
	calls  int
}

// register installs gen/1 on the interpreter.
func (g *c12Gen) register(i *Interpreter, name string) {
	i.Register1(engine.NewAtom(name), func(vm *engine.VM, t engine.Term, k engine.Cont, env *engine.Env) *engine.Promise {
		return g.from(vm, 1, t, k, env)
	})
}

func (g *c12Gen) from(vm *engine.VM, j int, t engine.Term, k engine.Cont, env *engine.Env) *engine.Promise {
	if j > g.n && g.ending != 2 {
		if g.ending == 1 {
			return engine.Delay(func(context.Context) *engine.Promise {
				g.calls++
				return engine.Error(engine.NewException(engine.NewAtom("oops"), nil))
			})
		}
		return engine.Bool(false)
	}
	return engine.Delay(func(context.Context) *engine.Promise {
		g.calls++
		return engine.Unify(vm, t, engine.Integer(j), k, env)
	}, func(context.Context) *engine.Promise {
		return g.from(vm, j+1, t, k, env)
	})
}

// c12Model is the iterator's state machine.
type c12Model struct {
	g         *c12Gen
	delivered int
	exhausted bool
	closed    bool
	failed    bool // the terminating error has happened
	lastTrue  bool // the last Next returned true (Scan is meaningful)
}

func (m *c12Model) next() bool {
	m.lastTrue = false
	if m.closed || m.exhausted {
		return false
	}
	if m.g.ending == 2 || m.delivered < m.g.n {
		m.delivered++
		m.lastTrue = true
		return true
	}
	m.exhausted = true
	if m.g.ending == 1 {
		m.failed = true
	}
	return false
}

const (
	c12Next = iota
	c12Scan
	c12Err
	c12Close
)

// c12Step performs one operation on sols and checks it against the model.
func c12Step(op int, sols *Solutions, m *c12Model) {
	switch op {
	case c12Next:
		got := sols.Next() // a call that never returns is reported by the scheduler as a deadlock
		want := m.next()
		verify(got == want, "Next: returned true/false at the wrong time")
	case c12Scan:
		if m.closed {
			_ = sols.Scan(map[string]interface{}{}) // after Close the result of Scan is not specified; it must return
			return
		}
		if !m.lastTrue {
			return
		}
		var x int
		found := false
		for _, v := range sols.vars {
			if v.Name == engine.NewAtom("X") {
				found = true
				err := convertAssign(&x, sols.vm, v.Variable, sols.env)
				verify(err == nil, "Scan: error on an integer answer")
			}
		}
		verify(found, "Scan: variable X not known")
		verify(x == m.delivered, "Scan: does not report the most recent answer")
		m2 := map[string]interface{}{}
		err := sols.Scan(m2)
		verify(err == nil, "Scan into a map raised an error")
		verify(m2["X"] == interface{}(m.delivered), "Scan into a map does not report the most recent answer")
	case c12Err:
		err := sols.Err()
		if m.failed {
			verify(err != nil, "Err: the terminating error is not reported")
		} else {
			verify(err == nil, "Err: reports an error although none terminated the query")
		}
	case c12Close:
		err := sols.Close()
		if m.closed {
			verify(err == ErrClosed, "Close: repeated Close does not return ErrClosed")
		} else {
			verify(err == nil, "Close: first Close returned an error")
		}
		m.closed = true
		m.lastTrue = false
	}
}

// H_C12_iter: inst = number of operations (3..5); n, ending and the operations by case split; every interleaving
// of the consumer and the search goroutine at synchronisation points within the preemption bound.
func H_C12_iter(inst int) {
	nops := 3 + inst
	i := newFull()
	g := &c12Gen{n: choice("n", 3), ending: choice("ending", 3)}
	g.register(i, "gen")
	before := runtime.NumGoroutine()
	sols, err := i.Query("gen(X).")
	verify(err == nil, "Query returned an error")
	m := &c12Model{g: g}
	for k := 0; k < nops; k++ {
		c12Step(choice("op", 4), sols, m)
	}
	if !m.closed {
		verify(sols.Close() == nil, "Close: first Close returned an error")
		m.closed = true
	}
	// after Close: no further goal runs and the goroutine terminates
	drain()
	calls := g.calls
	drain()
	verify(g.calls == calls, "a goal ran after Close")
	verify(runtime.NumGoroutine() == before, "the query's goroutine did not terminate after Close")
	if g.ending != 2 {
		verify(g.calls <= g.n+1, "more goals ran than the query has answers")
	}
	reach("c12/done", true)
}

// H_C12_two: two Solutions of one interpreter iterated in an interleaved fashion each see their own answers.
func H_C12_two(inst int) {
	nops := 3 + inst
	i := newFull()
	ga := &c12Gen{n: choice("na", 2), ending: choice("enda", 2)}
	gb := &c12Gen{n: choice("nb", 2), ending: 0}
	ga.register(i, "gena")
	gb.register(i, "genb")
	before := runtime.NumGoroutine()
	sa, err := i.Query("gena(X).")
	verify(err == nil, "Query returned an error")
	sb, err := i.Query("genb(X).")
	verify(err == nil, "Query returned an error")
	ma, mb := &c12Model{g: ga}, &c12Model{g: gb}
	for k := 0; k < nops; k++ {
		op := choice("op", 3) // Next, Scan, Err (Close at the end)
		if choice("which", 2) == 0 {
			c12Step(op, sa, ma)
		} else {
			c12Step(op, sb, mb)
		}
	}
	verify(sa.Close() == nil && sb.Close() == nil, "Close returned an error")
	drain()
	verify(runtime.NumGoroutine() == before, "the queries' goroutines did not terminate after Close")
	reach("c12/two", true)
}

// c12Queries: ordinary queries with a known number of answers (-1: infinitely many; -2: ends in an error).
var c12Queries = []struct {
	q string
	n int
}{
	{"true.", 1}, {"fail.", 0}, {"!.", 1}, {"!, !.", 1}, {"(!).", 1}, {"X = 1.", 1}, {"X = 1 ; X = 2.", 2}, {"member(X, [a, b, c]).", 3},
	{"\\+ fail.", 1}, {"\\+ true.", 0}, {"repeat.", -1}, {"between(1, 3, X), X > 1.", 2}, {"X is foo + 1.", -2}, {"member(X, [a, b]), !.", 1},
	{"call(!).", 1}, {"once(member(X, [a, b])).", 1}, {"catch(throw(x), x, true).", 1}, {"findall(X, member(X, [a, b]), L).", 1}, {"atom(a), atom(b).", 1},
	{"(true ; throw(late)).", -3},
	// enumerations that end at the extremes of the integer range or in an open structure
	{"between(9223372036854775806, 9223372036854775807, X).", 2}, {"between(9223372036854775807, 9223372036854775807, X).", 1},
	{"between(-9223372036854775808, -9223372036854775807, X).", 2}, {"succ(X, 9223372036854775807).", 1}, {"length(L, 2), member(a, L), L = [_, b].", 1},
	{"sub_atom(abc, B, 2, A, S).", 2}, {"atom_concat(X, Y, ab).", 3}, {"append(X, Y, [a]).", 2}, {"select(X, [a, b], R).", 2}, {"nth0(I, [a, b], E).", 2},
	{"current_op(P, T, mod).", 1}, {"atom_chars(X, [a, b]).", 1}, {"retract(zz_missing(_)).", 0}, {"bagof(X, member(X, [b, a]), L).", 1}, {"setof(X-Y, member(X-Y, [b-1, a-2]), L).", 1},
}

// H_C12_queries: Next returns true exactly once per answer and false thereafter, for ordinary queries (inst).
func H_C12_queries(inst int) {
	c := c12Queries[inst]
	note("query", c.q)
	i := newFull()
	before := runtime.NumGoroutine()
	sols, err := i.Query(c.q)
	verify(err == nil, "Query returned an error")
	want := c.n
	count := 0
	limit := 5
	for k := 0; k < limit; k++ {
		if !sols.Next() {
			break
		}
		count++
	}
	switch {
	case want >= 0:
		verify(count == want, "Next returned true a different number of times than the query has answers")
		verify(sols.Err() == nil, "Err reports an error for a query that ends normally")
		verify(!sols.Next() && !sols.Next() && !sols.Next(), "Next after exhaustion returned true (or blocked)")
	case want == -1:
		verify(count == limit, "an infinite query stopped delivering answers")
	case want == -2:
		verify(count == 0 && sols.Err() != nil, "a query ending in an error: Next/Err disagree")
		verify(!sols.Next() && !sols.Next(), "Next after an error returned true (or blocked)")
	case want == -3:
		verify(count == 1 && sols.Err() != nil, "answer then error: Next/Err disagree")
	}
	verify(sols.Close() == nil, "Close returned an error")
	verify(sols.Close() == ErrClosed, "repeated Close does not return ErrClosed")
	verify(!sols.Next(), "Next after Close returned true")
	drain()
	verify(runtime.NumGoroutine() == before, "the query's goroutine did not terminate after Close")
	reach("c12/queries", true)
}


// ---- Close ends the search: no goal of the query runs after it, whatever nondeterministic goal is pending ----

// c12Lazy: nondeterministic goals (built-in and library predicates with several answers), each followed by tick/0.
var c12Lazy = []struct {
	q string
	n int // number of answers (at least 2)
}{
	{"sub_atom(banana, B, _, _, ana), tick.", 2},
	{"sub_atom(abc, B, L, A, S), tick.", 10},
	{"atom_concat(X, Y, abc), tick.", 4},
	{"between(1, 3, X), tick.", 3},
	{"member(X, [a, b, c]), tick.", 3},
	{"append(X, Y, [a, b]), tick.", 3},
	{"select(X, [a, b, c], R), tick.", 3},
	{"nth0(I, [a, b, c], E), tick.", 3},
	{"nth1(I, [a, b, c], E), tick.", 3},
	{"length(L, N), tick.", -1},
	{"clause(lz(X), B), tick.", 3},
	{"retract(lz(X)), tick.", 3},
	{"current_op(P, T, mod), tick ; current_op(P, T, rem), tick.", 2},
	{"current_prolog_flag(F, V), tick.", 5},
	{"bagof(X, lz2(X, Y), L), tick.", 2},
	{"sub_atom(hello, 1, L, A, S), tick.", 5},
	{"lz(X), tick.", 3},
	{"(X = a ; X = b ; X = c), tick.", 3},
	{"repeat, tick.", -1},
	{"stream_property(S, alias(A)), tick.", 2},
	{"current_op(P, xfx, N), tick.", 5},
	{"call_nth(lz(X), N), tick.", 3},
	{"phrase(lzg(X), [a], R), tick.", 2},
	{"findall(X, lz(X), L), member(Y, L), tick.", 3},
	{"atom_length(A, L), tick.", -2},
}

func H_C12_lazy(inst int) {
	c := c12Lazy[inst]
	note("query", c.q)
	i := newFull()
	ticks := 0
	i.Register0(engine.NewAtom("tick"), func(vm *engine.VM, k engine.Cont, env *engine.Env) *engine.Promise {
		ticks++ // runs as soon as the goal is reached, like assertz/1 or write/1 do
		return k(env)
	})
	verify(i.Exec(":- dynamic(lz/1). lz(1). lz(2). lz(3). lz2(1, a). lz2(2, b). lzg(1) --> [a]. lzg(2) --> [a].") == nil, "harness: setup failed")
	before := runtime.NumGoroutine()
	sols, err := i.Query(c.q)
	verify(err == nil, "Query returned an error")
	take := 1 + choice("take", 2) // answers taken before Close
	got := 0
	for got < take && sols.Next() {
		got++
	}
	switch {
	case c.n == -2:
		verify(got == 0 && sols.Err() != nil, "a query ending in an error delivered an answer")
	case c.n == 0:
		verify(got == 0, "a query without answers delivered one")
	case c.n > 0 && c.n < take:
		verify(got == c.n, "fewer answers than the query has")
	default:
		verify(got == take, "Next returned false although answers remain")
	}
	t0 := ticks // the search goroutine is parked (answer handed over, or search over) whenever Next has returned
	verify(sols.Close() == nil, "Close returned an error")
	drain()
	verify(ticks == t0, "goals ran after Close")
	verify(runtime.NumGoroutine() == before, "the query's goroutine did not terminate after Close")
	verify(!sols.Next(), "Next after Close returned true")
	reach("c12/lazy", true)
}

// ---- two open Solutions on one interpreter, one enumerating a dynamic predicate, the other updating it ----

var c12Updates = []string{"retract(p(1)).", "retract(p(2)).", "retract(p(3)).", "assertz(p(4)).", "asserta(p(0)).", "retract(p(_)).", "retract(p(1)), assertz(p(1))."}

// H_C12_db: A = p(X) over dynamic p(1..3); B = one update (by case split); 5 Next calls addressed to A or B by case
// split. A's answers are the clauses that existed at its first Next (when its goal is called), in that order,
// whatever B does in between: each Solutions sees the answers it would see alone against that database.
func H_C12_db(inst int) {
	i := newFull()
	verify(i.Exec(":- dynamic(p/1). p(1). p(2). p(3).") == nil, "harness: setup failed")
	upd := c12Updates[inst]
	note("update", upd)
	a, err := i.Query("p(X).")
	verify(err == nil, "Query returned an error")
	b, err := i.Query(upd)
	verify(err == nil, "Query returned an error")
	db := []int{1, 2, 3} // the model's database
	var snap []int      // A's snapshot, taken at its first Next
	started := false
	bDone := 0
	seen := 0
	for k := 0; k < 5; k++ {
		if choice("who", 2) == 0 {
			ok := a.Next()
			if !started {
				started = true
				snap = append([]int{}, db...)
			}
			if seen < len(snap) {
				verify(ok, "A: Next returned false although clauses of its snapshot remain")
				var x int
				s := struct{ X *int }{&x}
				_ = s
				m := map[string]interface{}{}
				verify(a.Scan(m) == nil, "A: Scan failed")
				verify(m["X"] == interface{}(snap[seen]), "A: an answer is not the next clause of the database as it was when A's goal was called")
				seen++
			} else {
				verify(!ok, "A: more answers than clauses in its snapshot")
				verify(a.Err() == nil, "A: ended with an error")
			}
			continue
		}
		ok := b.Next()
		bDone++
		// the model of the update (first solution at the first Next; retract(p(_)) removes one more clause per Next)
		switch upd {
		case "retract(p(1)).", "retract(p(2)).", "retract(p(3)).":
			v := int(upd[10] - '0')
			if bDone == 1 {
				had := false
				for j, x := range db {
					if x == v {
						db = append(append([]int{}, db[:j]...), db[j+1:]...)
						had = true
						break
					}
				}
				verify(ok == had, "B: retract succeeded/failed wrongly")
			} else {
				verify(!ok, "B: a second answer")
			}
		case "assertz(p(4)).":
			if bDone == 1 {
				db = append(append([]int{}, db...), 4)
				verify(ok, "B: assertz failed")
			}
		case "asserta(p(0)).":
			if bDone == 1 {
				db = append([]int{0}, db...)
				verify(ok, "B: asserta failed")
			}
		case "retract(p(1)), assertz(p(1)).":
			if bDone == 1 {
				db = []int{2, 3, 1}
				verify(ok, "B: retract+assertz failed")
			}
		case "retract(p(_)).":
			// B's own snapshot is the database at ITS first Next; it removes the snapshot's clauses one per Next
			if bDone <= 3 {
				verify(ok, "B: retract(p(_)) ran out of clauses early")
				db = append([]int{}, db[1:]...)
			}
		}
		verify(b.Err() == nil, "B: ended with an error")
	}
	verify(a.Close() == nil && b.Close() == nil, "Close returned an error")
	reach("c12/db", true)
}

// ---- C01: which occurrences the reader identifies as one variable (expected answers given in Go) ----

func init() { vHarnesses["H_C01_readvars"] = H_C01_readvars }

var c01ReadVars = []struct {
	prog, query string
	want        []string // values of X per answer
}{
	{"par(tom, bob). par(bob, ann). par(tom, joe). gr(A, Z) :- par(A, _Y), par(_Y, Z).", "gr(tom, X).", []string{"ann"}},
	{"same(_V, _V).", "same(a, X).", []string{"a"}},
	{"same(_V, _V).", "same(a, b), X = wrong ; X = right.", []string{"right"}},
	{"two(_, _).", "two(a, b), X = ok.", []string{"ok"}},
	{"v(_1, _1, __, __, Ab_1, Ab_1).", "v(a, X, b, Y, c, Z), X == a, Y == b, Z == c.", []string{"a"}},
	{"p(X, X). q(X, Y) :- p(X, Y).", "q(a, X), p(_W, _W).", []string{"a"}},
}

func H_C01_readvars(inst int) {
	c := c01ReadVars[inst]
	note("case", c.prog+" ?- "+c.query)
	i := newFull()
	verify(i.Exec(c.prog) == nil, "harness: program does not load")
	sols, err := i.Query(c.query)
	verify(err == nil, "Query returned an error")
	var got []string
	for len(got) < 6 && sols.Next() {
		m := map[string]interface{}{}
		verify(sols.Scan(m) == nil, "Scan failed")
		s, _ := m["X"].(string)
		got = append(got, s)
	}
	verify(sols.Err() == nil, "the query raised an error")
	sols.Close()
	verify(len(got) == len(c.want), "a different number of answers than the program has (variable occurrences identified wrongly?)")
	for k := range got {
		verify(got[k] == c.want[k], "a different answer than the program has: "+got[k]+" instead of "+c.want[k])
	}
	reach("c01/readvars", true)
}

//go:build verif

package prolog

import "github.com/ichiban/prolog/engine"

func init() {
	vHarnesses["H_C01_sld"] = H_C01_sld
	vHarnesses["H_C01_gen"] = H_C01_gen
	vHarnesses["H_C03_cut"] = H_C03_cut
	vHarnesses["H_C03_shape"] = H_C03_shape
	vHarnesses["H_C03_disj"] = H_C03_disj
	vHarnesses["H_C17_disj"] = H_C17_disj
	vHarnesses["H_C17_wide"] = H_C17_wide
	vHarnesses["H_C10_disj"] = H_C10_disj
	vHarnesses["H_C04_gen"] = H_C04_gen
	vHarnesses["H_C01_gen2"] = H_C01_gen2
	vHarnesses["H_C01_shape"] = H_C01_shape
	vHarnesses["H_C03_gen2"] = H_C03_gen2
	vHarnesses["H_C04_catch"] = H_C04_catch
	vHarnesses["H_C09_history"] = H_C09_history
	vHarnesses["H_C09_text"] = H_C09_text
	vHarnesses["H_C11_allsol"] = H_C11_allsol
	vHarnesses["H_C19_cursor2"] = H_C19_cursor2
	vHarnesses["H_C19_cursor3"] = H_C19_cursor3
	vHarnesses["H_C19_cursor4"] = H_C19_cursor4
	vHarnesses["H_C19_out"] = H_C19_out
	vHarnesses["H_C19_read"] = H_C19_read
	vHarnesses["H_C06_ops"] = H_C06_ops
	vHarnesses["H_C06_atoms"] = H_C06_atoms
	vHarnesses["H_C06_numbers"] = H_C06_numbers
	vHarnesses["H_C20_load"] = H_C20_load
	vHarnesses["H_C17_dcg"] = H_C17_dcg
	vHarnesses["H_C17_shape"] = H_C17_shape
	vHarnesses["H_C16_rel"] = H_C16_rel
	vHarnesses["H_C18_ops"] = H_C18_ops
	vHarnesses["H_C08_order"] = H_C08_order
	vHarnesses["H_C08_sort"] = H_C08_sort
	vHarnesses["H_C08_rep"] = H_C08_rep
	vHarnesses["H_C16_alias"] = H_C16_alias
	vHarnesses["H_C16_partial"] = H_C16_partial
	vHarnesses["H_C02_pair"] = H_C02_pair
	vHarnesses["H_C02_rep"] = H_C02_rep
	vHarnesses["H_C10_gen"] = H_C10_gen
	vHarnesses["H_C10_store"] = H_C10_store
	vHarnesses["H_C10_text"] = H_C10_text
	vHarnesses["H_C10_bootstrap"] = H_C10_bootstrap
}

// H_C01_sld: differential run of case `inst` of the C01 corpus (real VM vs reference SLD core).
func H_C01_sld(inst int) {
	i := newFull()
	engine.VH_C01(&i.VM, inst)
}

// H_C01_gen: generated family (head arity = inst; argument shapes, number and kind of disjuncts by case split).
func H_C01_gen(inst int) {
	i := newFull()
	engine.VH_C01_gen(&i.VM, inst)
}

// H_C01_shape: every parenthesisation of a conjunction of 4..5 filtering goals in 4 contexts (engine.VH_C01_shape).
func H_C01_shape(inst int) {
	i := newFull()
	engine.VH_C01_shape(&i.VM, inst)
}

// H_C01_gen2 / H_C03_gen2: every program of 1..3 clauses for p/1 from a clause menu (without / with cuts) x 7 queries.
func H_C01_gen2(inst int) {
	i := newFull()
	engine.VH_gen2(&i.VM, inst, false)
}

func H_C03_gen2(inst int) {
	i := newFull()
	engine.VH_gen2(&i.VM, inst, true)
}

// H_C04_gen: two nested catch/3 with every combination of goal shape, ball, catcher and recovery (engine.VH_C04_gen).
func H_C04_gen(inst int) {
	i := newFull()
	engine.VH_C04_gen(&i.VM, inst)
}

// H_C16_partial: member/2, select/3, append/3 on partial and proper lists against their defining clauses.
func H_C16_partial(inst int) {
	i := newFull()
	engine.VH_C16_partial(&i.VM, inst)
}

// H_C16_alias: relational built-ins called with one variable in two argument positions.
func H_C16_alias(inst int) {
	i := newFull()
	engine.VH_C16_alias(&i.VM, inst)
}

// H_C08_rep: two lists, each built in one of several representations: the order is that of the literal lists.
func H_C08_rep(inst int) {
	i := newFull()
	engine.VH_C08_rep(&i.VM, inst)
}

// H_C17_wide: wide heads with short alternations. H_C10_disj: the clause-body context of the disjunction shapes.
func H_C17_wide(inst int) {
	i := newFull()
	engine.VH_C17_wide(&i.VM, inst)
}

func H_C10_disj(inst int) {
	i := newFull()
	engine.VH_C03_disj(&i.VM, inst)
}

// H_C03_disj / H_C17_disj: every parenthesisation of a disjunction / alternation containing one if-then.
func H_C03_disj(inst int) {
	i := newFull()
	engine.VH_C03_disj(&i.VM, inst)
}

func H_C17_disj(inst int) {
	i := newFull()
	engine.VH_C17_disj(&i.VM, inst)
}

// H_C03_shape: generated family of conjunction shapes with a cut at every position (see engine.VH_C03_shape).
func H_C03_shape(inst int) {
	i := newFull()
	engine.VH_C03_shape(&i.VM, inst)
}

// H_C03_cut: differential run of case `inst` of the cut/control corpus.
func H_C03_cut(inst int) {
	i := newFull()
	engine.VH_C03(&i.VM, inst)
}

// H_C04_catch: differential run of case `inst` of the catch/throw corpus.
func H_C04_catch(inst int) {
	i := newFull()
	engine.VH_C04(&i.VM, inst)
}

// H_C09_text: database cases with clauses that share variables with the asserting goal.
func H_C09_text(inst int) {
	i := newFull()
	engine.VH_C09_text(&i.VM, inst)
}

// H_C09_history: bounded database histories (family = inst) against the logical-update-view reference.
func H_C09_history(inst int) {
	i := newFull()
	engine.VH_C09(&i.VM, inst)
}

// H_C10_store: clause terms added with assertz/asserta (possibly with pre-bound variables) vs the reference.
func H_C10_store(inst int) {
	i := newFull()
	engine.VH_C10(&i.VM, inst)
}

// H_C10_text: the same kinds of clauses loaded from text through Compile.
func H_C10_text(inst int) {
	i := newFull()
	engine.VH_C10_text(&i.VM, inst)
}

// H_C10_bootstrap: every clause of bootstrap.pl as loaded by New() denotes its source clause.
func H_C10_bootstrap(inst int) {
	i := newFull()
	engine.VH_C10_bootstrap(&i.VM, bootstrap)
}

// H_C11_allsol: findall/bagof/setof skeletons vs the reference (group order unconstrained).
func H_C11_allsol(inst int) {
	i := newFull()
	engine.VH_C11(&i.VM, inst)
}

// H_C10_gen: generated heads x disjunctive bodies: each stored clause denotes Head :- Alternative_i.
func H_C10_gen(inst int) {
	i := newFull()
	engine.VH_C10_gen(&i.VM, inst)
}

// H_C02_pair: a pair of term templates with symbolic leaves: =/2, unify_with_occurs_check/2, head unification
// against a reference Robinson unifier, symmetry, persistence of the caller's environment.
func H_C02_pair(inst int) {
	i := newFull()
	engine.VH_C02_pair(&i.VM, inst)
}

// H_C02_rep: the same abstract list built through two constructor paths behaves as one term.
func H_C02_rep(inst int) {
	i := newFull()
	engine.VH_C02_rep(&i.VM, inst)
}

// H_C08_order: order laws on triples of templates with symbolic leaves (pair = inst, third by case split).
func H_C08_order(inst int) {
	i := newFull()
	engine.VH_C08_order(&i.VM, inst)
}

// H_C08_sort: sort/2 and keysort/2 on lists of length inst.
func H_C08_sort(inst int) {
	i := newFull()
	engine.VH_C08_sort(&i.VM, inst)
}

// H_C18_ops: 1..3 op/3 calls (family = inst) with symbolic priority, then current_op/3 in all patterns, reader and writer.
func H_C18_ops(inst int) {
	i := newFull()
	engine.VH_C18(&i.VM, inst)
}

// H_C16_rel: one relational built-in per instance; modes/sizes by case split, numbers and elements symbolic.
func H_C16_rel(inst int) {
	i := newFull()
	engine.VH_C16(&i.VM, inst)
}

// H_C17_shape: generated family of DCG body shapes with a cut element at every position (engine.VH_C17_shape).
func H_C17_shape(inst int) {
	i := newFull()
	engine.VH_C17_shape(&i.VM, inst)
}

// H_C17_dcg: grammar `inst`: expand_term + assertz of every rule, then phrase/2,3 vs the reference translation.
func H_C17_dcg(inst int) {
	i := newFull()
	engine.VH_C17(&i.VM, inst)
}

// H_C20_load: program texts assembled from items (orders, declarations, one fault), on top of an earlier load.
func H_C20_load(inst int) {
	i := newFull()
	engine.VH_C20(&i.VM, inst)
}

// H_C19_cursor2/3: sequences of 2 / 3 input operations in one conjunction on a stream over symbolic bytes.
func H_C19_cursor2(inst int) {
	i := newFull()
	engine.VH_C19(&i.VM, inst, 2)
}

func H_C19_cursor4(inst int) {
	i := newFull()
	engine.VH_C19(&i.VM, inst, 4)
}

func H_C19_cursor3(inst int) {
	i := newFull()
	engine.VH_C19(&i.VM, inst, 3)
}

// H_C19_read: read/1 between character operations: the cursor stands right behind the end token.
func H_C19_read(inst int) {
	i := newFull()
	engine.VH_C19_read(&i.VM, inst)
}

// H_C19_out: output goals reach the sink completely and in program order.
func H_C19_out(inst int) {
	i := newFull()
	engine.VH_C19_out(&i.VM, inst)
}

// H_C06_ops: term `inst` written under a symbolic user operator table reads back as the same term.
func H_C06_ops(inst int) {
	i := newFull()
	engine.VH_C06_ops(&i.VM, inst)
}

// H_C06_atoms: atoms of every lexical class in every context.
func H_C06_atoms(inst int) {
	i := newFull()
	engine.VH_C06_atoms(&i.VM, inst)
}

// H_C06_numbers: boundary numbers in operator contexts; number_chars/number_codes round trip.
func H_C06_numbers(inst int) {
	i := newFull()
	engine.VH_C06_numbers(&i.VM, inst)
}

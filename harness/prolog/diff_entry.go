//go:build verif

package prolog

import "github.com/ichiban/prolog/engine"

func init() {
	vHarnesses["H_C01_sld"] = H_C01_sld
	vHarnesses["H_C01_gen"] = H_C01_gen
	vHarnesses["H_C03_cut"] = H_C03_cut
	vHarnesses["H_C04_catch"] = H_C04_catch
	vHarnesses["H_C09_history"] = H_C09_history
}

// H_C01_sld: differential run of case `inst` of the C01 corpus (real VM vs reference SLD core).
func H_C01_sld(inst int) {
	i := newFull()
	engine.VH_C01(&i.VM, inst)
}

// H_C01_gen: generated family (head arity = inst; argument shapes, number and kind of disjuncts by case split).
func H_C01_gen(inst int) {
	i := newFull()
	engine.VH_C01_gen(&i.VM, inst)
}

// H_C03_cut: differential run of case `inst` of the cut/control corpus.
func H_C03_cut(inst int) {
	i := newFull()
	engine.VH_C03(&i.VM, inst)
}

// H_C04_catch: differential run of case `inst` of the catch/throw corpus.
func H_C04_catch(inst int) {
	i := newFull()
	engine.VH_C04(&i.VM, inst)
}

// H_C09_history: bounded database histories (family = inst) against the logical-update-view reference.
func H_C09_history(inst int) {
	i := newFull()
	engine.VH_C09(&i.VM, inst)
}

//go:build verif

package prolog

// C13 — cancelling the context stops any execution promptly; the interpreter stays usable.

import (
	"context"
	"errors"
	"io/fs"
	"time"
)

func init() {
	vHarnesses["H_C13_cancel"] = H_C13_cancel
}

// c13Ctx is a context whose Done() counts its calls (the trampoline's own clock) and reports cancellation from
// the fireAt-th call on.
type c13Ctx struct {
	polls     int
	fireAt    int
	open      chan struct{}
	closed    chan struct{}
	fired     bool
	firedStep int
	lastStep  int
	maxGap    int
}

func newC13Ctx(fireAt int) *c13Ctx {
	c := &c13Ctx{fireAt: fireAt, open: make(chan struct{}), closed: make(chan struct{})}
	close(c.closed)
	return c
}

func (c *c13Ctx) Deadline() (time.Time, bool)       { return time.Time{}, false }
func (c *c13Ctx) Value(key interface{}) interface{} { return nil }
func (c *c13Ctx) Err() error {
	if c.fired {
		return context.Canceled
	}
	return nil
}
func (c *c13Ctx) Done() <-chan struct{} {
	now := stepCount()
	if c.polls > 0 && now-c.lastStep > c.maxGap {
		c.maxGap = now - c.lastStep
	}
	c.lastStep = now
	if c.polls >= c.fireAt {
		if !c.fired {
			c.fired = true
			c.firedStep = now
		}
		c.polls++
		return c.closed
	}
	c.polls++
	return c.open
}

var c13Programs = []struct {
	name  string
	load  string // loaded with Exec (Background) before the cancellable call
	kind  int    // 0 QueryContext+Next, 1 ExecContext of text, 2 QuerySolutionContext
	text  string
}{
	{"recursion", "loop :- loop.", 0, "loop."},
	{"repeat-fail", "", 0, "repeat, fail."},
	{"between-fail", "", 0, "between(1, 1000000000, _), fail."},
	{"between-builtin-test", "", 0, "between(1, 1000000000000, X), X < 0."},
	{"between-arith-test", "", 0, "between(1, 1000000000000, X), X =:= 0."},
	{"length-enumerate", "", 0, "length(_, N), N < 0."},
	{"findall-loop", "", 0, "findall(X, (repeat, fail), L)."},
	{"findall-between", "", 0, "findall(X, (between(1, 1000000000000, X), X < 0), L)."},
	{"naf-loop", "", 0, "\\+ (repeat, fail)."},
	{"catch-loop", "", 0, "catch((repeat, fail), _, true)."},
	{"call-loop", "", 0, "call((repeat, fail))."},
	{"nested-findall-naf", "", 0, "findall(X, \\+ (repeat, fail), L)."},
	{"mutual-recursion", "a :- b. b :- a.", 0, "a."},
	{"growing-term", "g(X) :- g(f(X)).", 0, "g(a)."},
	{"append-enumerate", "", 0, "append(X, Y, Z), fail."},
	{"directive-loop", "", 1, ":- repeat, fail."},
	{"initialization-loop", "", 1, ":- initialization((repeat, fail))."},
	{"term-expansion-loop", "term_expansion(_, _) :- repeat, fail.", 1, "foo."},
	{"query-solution", "loop :- loop.", 2, "loop."},
	{"atom-length-loop", "", 0, "repeat, atom_length(abc, N), N < 0."},
	{"bagof-loop", "", 0, "bagof(X, (repeat, fail), L)."},
	{"sort-loop", "", 0, "repeat, sort([c, b, a], L), L = []."},
	// loading a file (in-memory file system) whose directive loops until ready/0 exists; after the cancellation the
	// same load is repeated with ready/0 defined and must define the file's predicates (kinds 3 and 4)
	{"consult-file-loop", "", 3, "consult(lib)."},
	{"ensure-loaded-directive-file-loop", "", 4, ":- ensure_loaded(lib)."},
	{"consult-list-file-loop", "", 3, "[lib]."},
}

// c13FS is an in-memory file system (fs.ReadFileFS).
type c13FS map[string]string

var errC13NoFile = errors.New("c13FS: no such file")

func (f c13FS) Open(name string) (fs.File, error) { return nil, errC13NoFile }
func (f c13FS) ReadFile(name string) ([]byte, error) {
	if s, ok := f[name]; ok {
		return []byte(s), nil
	}
	return nil, errC13NoFile
}

const c13Lib = ":- ( catch(ready, _, fail) -> true ; repeat, fail ).\nanswer(42).\n"

// stepBound: the largest number of executor steps allowed between two polls of ctx.Done() and between the
// cancellation and the return of the call.
const c13StepBound = 400000

// H_C13_cancel: inst selects the program; the cancellation instant (poll index) is symbolic in 0..K.
func H_C13_cancel(inst int) {
	p := c13Programs[inst]
	note("program", p.name+": "+p.load+" ?- "+p.text)
	i := newFull()
	if p.load != "" {
		verify(i.Exec(p.load) == nil, "harness: loading the program failed")
	}
	k := nondetInt("cancel_at_poll")
	assume(bAnd(k >= 0, k <= c13K()))
	ctx := newC13Ctx(k)
	var err error
	switch p.kind {
	case 0:
		sols, qerr := i.QueryContext(ctx, p.text)
		verify(qerr == nil, "QueryContext returned an error before running")
		got := sols.Next()
		verify(!got, "a never-succeeding query produced an answer")
		err = sols.Err()
		_ = sols.Close()
	case 1:
		err = i.ExecContext(ctx, p.text)
	case 2:
		err = i.QuerySolutionContext(ctx, p.text).Err()
	case 3:
		i.FS = c13FS{"lib.pl": c13Lib}
		err = i.QuerySolutionContext(ctx, p.text).Err()
	case 4:
		i.FS = c13FS{"lib.pl": c13Lib}
		err = i.ExecContext(ctx, p.text)
	}
	verify(ctx.fired, "the call returned before the cancellation although the program never terminates")
	verify(err == context.Canceled, "the pending call did not return the context's error")
	if symbolicRun() {
		verify(ctx.maxGap <= c13StepBound, "an unbounded stretch of execution between two polls of ctx.Done()")
		verify(stepCount()-ctx.firedStep <= c13StepBound, "the call did not return promptly after the cancellation")
	}
	// the same interpreter answers a further query like a fresh one
	sols, qerr := i.Query("member(X, [a, b]), X \\== a.")
	verify(qerr == nil, "follow-up Query returned an error")
	verify(sols.Next(), "the interpreter does not answer after a cancelled call")
	m := map[string]interface{}{}
	verify(sols.Scan(m) == nil && m["X"] == interface{}("b"), "the interpreter answers wrongly after a cancelled call")
	verify(!sols.Next() && sols.Err() == nil, "follow-up query: wrong end")
	_ = sols.Close()
	if p.kind >= 3 {
		// the cancelled load is repeated, now able to finish: it must load the file like a first load does
		verify(i.Exec("ready.") == nil, "harness: defining ready/0 failed")
		if p.kind == 3 {
			verify(i.QuerySolution(p.text).Err() == nil, "repeating a cancelled load failed")
		} else {
			verify(i.Exec(p.text) == nil, "repeating a cancelled load failed")
		}
		verify(i.QuerySolution("answer(42).").Err() == nil, "after repeating a cancelled load the file's predicates are not defined")
		reach("c13/reload", true)
	}
	reach("c13/cancelled", true)
}

// c13K is the largest cancellation instant (in polls); VERIF tier thorough uses a larger one via the instance list.
func c13K() int { return 40 }

//go:build verif

package prolog

// C15 — Go values cross the API as data: Scan stores exactly the answer's value or returns an error;
// '?' placeholders behave like the literal.

import (
	"bytes"
	"math"
	"strings"

	"github.com/ichiban/prolog/engine"
)

func init() {
	vHarnesses["H_C15_scanInt"] = H_C15_scanInt
	vHarnesses["H_C15_scanFloat"] = H_C15_scanFloat
	vHarnesses["H_C15_scanMismatch"] = H_C15_scanMismatch
	vHarnesses["H_C15_scanList"] = H_C15_scanList
	vHarnesses["H_C15_placeholderNum"] = H_C15_placeholderNum
	vHarnesses["H_C15_placeholderStr"] = H_C15_placeholderStr
	vHarnesses["H_C15_placeholderCount"] = H_C15_placeholderCount
}

var c15IntDests = []string{"int", "int8", "int16", "int32", "int64", "any"}

// H_C15_scanInt: answer Integer(v), v over all int64, into every integer destination type.
// Exact-or-error, and (so that "always error" does not pass) a value inside the destination's range must be stored.
func H_C15_scanInt(inst int) {
	v := nondetInt64("v")
	t := engine.Integer(v)
	switch c15IntDests[inst] {
	case "int":
		var d int
		err := convertAssign(&d, nil, t, nil)
		verify(err == nil, "int: error for a value in range")
		verify(int64(d) == v, "int: stored value differs from the answer")
	case "int8":
		var d int8
		err := convertAssign(&d, nil, t, nil)
		if err == nil {
			verify(int64(d) == v, "int8: stored value differs from the answer (silently wrapped)")
			reach("scanInt/int8/stored", true)
		} else {
			verify(bOr(v < math.MinInt8, v > math.MaxInt8), "int8: error for a value in range")
			reach("scanInt/int8/error", true)
		}
	case "int16":
		var d int16
		err := convertAssign(&d, nil, t, nil)
		if err == nil {
			verify(int64(d) == v, "int16: stored value differs from the answer (silently wrapped)")
		} else {
			verify(bOr(v < math.MinInt16, v > math.MaxInt16), "int16: error for a value in range")
		}
	case "int32":
		var d int32
		err := convertAssign(&d, nil, t, nil)
		if err == nil {
			verify(int64(d) == v, "int32: stored value differs from the answer (silently wrapped)")
		} else {
			verify(bOr(v < math.MinInt32, v > math.MaxInt32), "int32: error for a value in range")
		}
	case "int64":
		var d int64
		err := convertAssign(&d, nil, t, nil)
		verify(err == nil, "int64: error")
		verify(d == v, "int64: stored value differs from the answer")
	case "any":
		var d interface{}
		err := convertAssign(&d, nil, t, nil)
		verify(err == nil, "interface{}: error")
		i, ok := d.(int)
		verify(ok, "interface{}: integer answer not stored as int")
		verify(int64(i) == v, "interface{}: stored value differs from the answer")
	}
}

// H_C15_scanFloat: answer Float(f), all float64 bit patterns, into float64 and interface{}: bit-for-bit.
func H_C15_scanFloat(inst int) {
	f := nondetFloat64("f")
	t := engine.Float(f)
	switch inst {
	case 0:
		var d float64
		err := convertAssign(&d, nil, t, nil)
		verify(err == nil, "float64: error")
		verify(fSame(d, f), "float64: stored value differs from the answer")
	case 1:
		var d interface{}
		err := convertAssign(&d, nil, t, nil)
		verify(err == nil, "interface{}: error")
		g, ok := d.(float64)
		verify(ok, "interface{}: float answer not stored as float64")
		verify(fSame(g, f), "interface{}: stored value differs from the answer")
	}
}

// H_C15_scanMismatch: a term of the wrong kind is an error, never a stored value.
func H_C15_scanMismatch(inst int) {
	v := nondetInt64("v")
	f := nondetFloat64("f")
	switch inst {
	case 0: // float answer into integer destinations
		var d8 int8
		var d64 int64
		var di int
		verify(convertAssign(&d8, nil, engine.Float(f), nil) != nil, "float into int8 accepted")
		verify(convertAssign(&d64, nil, engine.Float(f), nil) != nil, "float into int64 accepted")
		verify(convertAssign(&di, nil, engine.Float(f), nil) != nil, "float into int accepted")
	case 1: // integer answer into float destination
		var d float64
		verify(convertAssign(&d, nil, engine.Integer(v), nil) != nil, "integer into float64 accepted")
	case 2: // atom / compound into numeric destinations
		var d int64
		var g float64
		verify(convertAssign(&d, nil, engine.NewAtom("foo"), nil) != nil, "atom into int64 accepted")
		verify(convertAssign(&g, nil, engine.NewAtom("foo"), nil) != nil, "atom into float64 accepted")
		verify(convertAssign(&d, nil, engine.NewAtom("f").Apply(engine.Integer(v)), nil) != nil, "compound into int64 accepted")
	case 3: // unbound variable into numeric destination
		var d int64
		verify(convertAssign(&d, nil, engine.NewVariable(), nil) != nil, "variable into int64 accepted")
	}
}

// H_C15_scanList: lists of integers into []int64, []int8 and []interface{} (lengths 0..3 by case split).
func H_C15_scanList(inst int) {
	n := choice("len", 4)
	vals := make([]int64, n)
	elems := make([]engine.Term, n)
	for i := range vals {
		vals[i] = nondetInt64("v" + string(rune('0'+i)))
		elems[i] = engine.Integer(vals[i])
	}
	l := engine.List(elems...)
	switch inst {
	case 0:
		var d []int64
		err := convertAssign(&d, nil, l, nil)
		verify(err == nil, "[]int64: error")
		verify(len(d) == n, "[]int64: length differs")
		for i := range vals {
			verify(d[i] == vals[i], "[]int64: element differs")
		}
	case 1:
		var d []int8
		err := convertAssign(&d, nil, l, nil)
		if err == nil {
			verify(len(d) == n, "[]int8: length differs")
			for i := range vals {
				verify(int64(d[i]) == vals[i], "[]int8: element silently wrapped")
			}
		} else {
			out := false
			for i := range vals {
				out = bOr(out, bOr(vals[i] < math.MinInt8, vals[i] > math.MaxInt8))
			}
			verify(out, "[]int8: error although every element is in range")
		}
	case 2:
		var d interface{}
		err := convertAssign(&d, nil, l, nil)
		verify(err == nil, "interface{} list: error")
		s, ok := d.([]interface{})
		verify(ok, "interface{} list: not a []interface{}")
		verify(len(s) == n, "interface{} list: length differs")
		for i := range vals {
			e, ok := s[i].(int)
			verify(ok, "interface{} list: element not int")
			verify(int64(e) == vals[i], "interface{} list: element differs")
		}
	case 3: // partial list is an error
		var d []int64
		pl := engine.PartialList(engine.NewVariable(), elems...)
		if n > 0 {
			verify(convertAssign(&d, nil, pl, nil) != nil, "partial list accepted")
		}
	}
}

// parseWith parses text with placeholder arguments under the interpreter's flags and returns the term.
func parseWith(i *Interpreter, text string, args ...interface{}) (engine.Term, error) {
	p := engine.NewParser(&i.VM, strings.NewReader(text))
	if err := p.SetPlaceholder(engine.NewAtom("?"), args...); err != nil {
		return nil, err
	}
	return p.Term()
}

// vOut receives what the interpreter under test writes to user_output.
var vOut bytes.Buffer

func newBare() *Interpreter {
	var i Interpreter
	return &i
}

// newFull returns an interpreter built by the real New() (registration + bootstrap); under symgo it is built
// once per worker and every path starts from a heap snapshot of it.
func newFull() *Interpreter {
	return setupOnce("New", func() interface{} { return New(strings.NewReader(""), &vOut) }).(*Interpreter)
}

var c15NumKinds = []string{"int", "int8", "int16", "int32", "int64", "float64", "float32"}

// H_C15_placeholderNum: a numeric Go argument for '?' denotes the same term as the literal: f(?) == f(Number).
func H_C15_placeholderNum(inst int) {
	i := newBare()
	var arg interface{}
	var want engine.Term
	switch c15NumKinds[inst] {
	case "int":
		v := nondetInt("v")
		arg, want = v, engine.Integer(v)
	case "int8":
		v := nondetInt8("v")
		arg, want = v, engine.Integer(v)
	case "int16":
		v := nondetInt16("v")
		arg, want = v, engine.Integer(v)
	case "int32":
		v := nondetInt32("v")
		arg, want = v, engine.Integer(v)
	case "int64":
		v := nondetInt64("v")
		arg, want = v, engine.Integer(v)
	case "float64":
		v := nondetFloat64("v")
		arg, want = v, engine.Float(v)
	case "float32":
		v := nondetFloat32("v")
		arg, want = v, engine.Float(v)
	}
	t, err := parseWith(i, "f(?, a).", arg)
	verify(err == nil, "placeholder: parse error")
	c, ok := t.(engine.Compound)
	verify(ok && c.Arity() == 2, "placeholder: not f/2")
	switch w := want.(type) {
	case engine.Integer:
		g, ok := c.Arg(0).(engine.Integer)
		verify(ok, "placeholder: integer argument is not an Integer term")
		verify(g == w, "placeholder: integer value differs")
	case engine.Float:
		g, ok := c.Arg(0).(engine.Float)
		verify(ok, "placeholder: float argument is not a Float term")
		verify(fSame(float64(g), float64(w)), "placeholder: float value differs")
	}
}

// H_C15_placeholderStr: a string argument of N symbolic bytes (valid UTF-8 assumed for text) behaves like the
// double-quoted literal under the current double_quotes flag and is never lexed: inst = flag*4 + N.
func H_C15_placeholderStr(inst int) {
	n := inst % 4
	flag := inst / 4 // 0 codes, 1 chars (this implementation's default), 2 atom
	i := newFull()
	bs := make([]byte, n)
	for k := range bs {
		bs[k] = nondetUint8("b" + string(rune('0'+k)))
		assume(bs[k] < 0x80) // ASCII text: every byte value incl. quotes, backslash, '.', newline, NUL
	}
	s := string(bs)
	switch flag {
	case 0:
		verify(i.Exec(":- set_prolog_flag(double_quotes, codes).") == nil, "set flag")
	case 1:
		verify(i.Exec(":- set_prolog_flag(double_quotes, chars).") == nil, "set flag")
	case 2:
		verify(i.Exec(":- set_prolog_flag(double_quotes, atom).") == nil, "set flag")
	}
	t, err := parseWith(i, "f(?, a).", s)
	verify(err == nil, "placeholder string: parse error")
	c, ok := t.(engine.Compound)
	verify(ok && c.Arity() == 2 && c.Functor() == engine.NewAtom("f"), "placeholder string: not f/2 (argument re-interpreted as syntax)")
	verify(c.Arg(1) == engine.NewAtom("a"), "placeholder string: second argument changed")
	got := c.Arg(0)
	switch flag {
	case 0:
		verify(sameList(got, codesOf(bs)), "placeholder string: differs from the code list of the bytes")
	case 1:
		verify(sameList(got, charsOf(bs)), "placeholder string: differs from the char list of the bytes")
	case 2:
		a, ok := got.(engine.Atom)
		verify(ok, "placeholder string: not an atom under double_quotes=atom")
		verify(a.String() == s, "placeholder string: atom text differs")
	}
}

func codesOf(bs []byte) []engine.Term {
	out := make([]engine.Term, len(bs))
	for i, b := range bs {
		out[i] = engine.Integer(b)
	}
	return out
}

func charsOf(bs []byte) []engine.Term {
	out := make([]engine.Term, len(bs))
	for i, b := range bs {
		out[i] = engine.Atom(b) // single-rune atoms are their code point
	}
	return out
}

// sameList: t is a proper list whose elements equal want (compared as atomic terms).
func sameList(t engine.Term, want []engine.Term) bool {
	it := engine.ListIterator{List: t}
	ok := true
	k := 0
	for it.Next() {
		if k >= len(want) {
			return false
		}
		ok = bAnd(ok, it.Current() == want[k])
		k++
	}
	if it.Err() != nil || k != len(want) {
		return false
	}
	return ok
}

// H_C15_placeholderCount: k placeholders with m != k arguments is an error.
func H_C15_placeholderCount(inst int) {
	i := newBare()
	v := nondetInt64("v")
	switch inst {
	case 0:
		_, err := parseWith(i, "f(?, ?).", v)
		verify(err != nil, "2 placeholders, 1 argument: no error")
	case 1:
		_, err := parseWith(i, "f(?).", v, v)
		verify(err != nil, "1 placeholder, 2 arguments: no error")
	case 2:
		_, err := parseWith(i, "f(a).", v)
		verify(err != nil, "0 placeholders, 1 argument: no error")
	case 3:
		t, err := parseWith(i, "f(?, ?).", v, v)
		verify(err == nil && t != nil, "2 placeholders, 2 arguments: error")
	case 4:
		_, err := parseWith(i, "f(?).")
		verify(err != nil, "1 placeholder, 0 arguments: no error")
	case 5:
		_, err := parseWith(i, "f(?, g(?)).")
		verify(err != nil, "2 placeholders, 0 arguments: no error")
	case 6:
		// through the public API, on a full interpreter
		full := newFull()
		sols, err := full.Query("X = f(?).")
		if err == nil {
			sols.Close()
		}
		verify(err != nil, "Query with 1 placeholder and 0 arguments: no error")
		err = full.Exec("allowed_c15(?).")
		verify(err != nil, "Exec with 1 placeholder and 0 arguments: no error")
		sol := full.QuerySolution("atom(?).")
		verify(sol.Err() != nil, "QuerySolution with 1 placeholder and 0 arguments: no error")
	case 7:
		_, err := parseWith(i, "f(?, ?, ?).", v, v)
		verify(err != nil, "3 placeholders, 2 arguments: no error")
	case 8:
		_, err := parseWith(i, "f([?|?]).", v)
		verify(err != nil, "2 placeholders in a list, 1 argument: no error")
	}
}

// ---- Scan of a whole answer (several variables) through the public API ----

func init() { vHarnesses["H_C15_scanAnswer"] = H_C15_scanAnswer }

// H_C15_scanAnswer: an answer with two or three list-valued variables of lengths chosen by case split (so that a
// later list fits or does not fit into the capacity left by an earlier one) and symbolic integer elements is scanned
// into destinations of 5 kinds: map[string][]int64, map[string]interface{}, struct with slice fields, map[string][]int8,
// and the same destination scanned twice for two answers.
func H_C15_scanAnswer(inst int) {
	i := newFull()
	lens := []int{choice("lenx", 4), choice("leny", 4)}
	var vals [2][]int64
	var args []interface{}
	text := "X = ["
	for v := 0; v < 2; v++ {
		if v == 1 {
			text += "], Y = ["
		}
		for k := 0; k < lens[v]; k++ {
			x := nondetInt64("e" + string(rune('0'+v)) + string(rune('0'+k)))
			if inst == 3 {
				assume(bAnd(x >= -128, x <= 127))
			}
			vals[v] = append(vals[v], x)
			args = append(args, x)
			if k > 0 {
				text += ", "
			}
			text += "?"
		}
	}
	text += "]."
	sols, err := i.Query(text, args...)
	verify(err == nil, "Query returned an error")
	verify(sols.Next(), "no answer")
	check64 := func(got []int64, want []int64, what string) {
		verify(len(got) == len(want), what+": length differs from the answer's list")
		for k := range want {
			verify(got[k] == want[k], what+": an element differs from the answer's list")
		}
	}
	switch inst {
	case 0:
		m := map[string][]int64{}
		verify(sols.Scan(m) == nil, "Scan into map[string][]int64 failed")
		check64(m["X"], vals[0], "map[string][]int64 X")
		check64(m["Y"], vals[1], "map[string][]int64 Y")
	case 1:
		m := map[string]interface{}{}
		verify(sols.Scan(m) == nil, "Scan into map[string]interface{} failed")
		for v, name := range []string{"X", "Y"} {
			s, ok := m[name].([]interface{})
			if len(vals[v]) == 0 {
				continue // an empty list is the atom []: its Go image is not a slice
			}
			verify(ok && len(s) == len(vals[v]), "map[string]interface{}: not a slice of the answer's length")
			for k := range vals[v] {
				verify(s[k] == interface{}(int(vals[v][k])), "map[string]interface{}: an element differs")
			}
		}
	case 2:
		var d struct{ X, Y []int64 }
		verify(sols.Scan(&d) == nil, "Scan into a struct failed")
		check64(d.X, vals[0], "struct X")
		check64(d.Y, vals[1], "struct Y")
	case 3:
		m := map[string][]int8{}
		verify(sols.Scan(m) == nil, "Scan into map[string][]int8 failed")
		for v, name := range []string{"X", "Y"} {
			verify(len(m[name]) == len(vals[v]), "map[string][]int8: length differs")
			for k := range vals[v] {
				verify(int64(m[name][k]) == vals[v][k], "map[string][]int8: an element differs")
			}
		}
	case 4:
		// two Scans into fresh destinations: the first result must not change when the second is made
		m1 := map[string][]int64{}
		verify(sols.Scan(m1) == nil, "Scan failed")
		x1 := append([]int64{}, m1["X"]...)
		m2 := map[string][]int64{}
		verify(sols.Scan(m2) == nil, "second Scan failed")
		check64(m1["X"], x1, "first destination after a second Scan")
		check64(m2["Y"], vals[1], "second destination Y")
	}
	sols.Close()
	reach("c15/answer", true)
}

//go:build verif

package prolog

// Translator validation (symgo selftest): concrete workloads whose transcript must be identical when the real
// code is run natively and when it is run from its SSA by the executor. No symbolic values; the transcript is
// returned through the message of a final failing verify().

import (
	"bytes"
	"strings"

	"github.com/ichiban/prolog/engine"
)

func init() {
	vHarnesses["H_selftest"] = H_selftest
}

var selftestSetup = `
:- dynamic(cnt/1).
cnt(0).
app([], L, L).
app([H|T], L, [H|R]) :- app(T, L, R).
nrev([], []).
nrev([H|T], R) :- nrev(T, RT), app(RT, [H], R).
fact(0, 1) :- !.
fact(N, F) :- N1 is N - 1, fact(N1, F1), F is N * F1.
fib(0, 0). fib(1, 1).
fib(N, F) :- N > 1, A is N - 1, B is N - 2, fib(A, FA), fib(B, FB), F is FA + FB.
edge(a, b). edge(b, c). edge(c, d). edge(a, d).
path(X, Y) :- edge(X, Y).
path(X, Z) :- edge(X, Y), path(Y, Z).
greeting --> [hello], name.
name --> [world].
name --> [prolog].
digits([D|T]) --> digit(D), digits(T).
digits([D]) --> digit(D).
digit(D) --> [D], { code_type_digit(D) }.
code_type_digit(D) :- D @>= '0', D @=< '9'.
age(peter, 7). age(ann, 11). age(pat, 8). age(tom, 5). age(mike, 11).
`

var selftestQueries = [][]string{
	{ // arithmetic, integers
		`X is 1 + 2.`, `X is 7 - 10.`, `X is 6 * 7.`, `X is 7 // 2.`, `X is -7 // 2.`, `X is 7 mod -2.`, `X is -7 rem 2.`, `X is -7 div 2.`,
		`X is 2 ^ 10.`, `X is 2 ^ 63.`, `X is 9223372036854775807 + 1.`, `X is -9223372036854775808 - 1.`, `X is 3037000500 * 3037000500.`,
		`X is 9007199254740993 div 1.`, `X is 1 << 62.`, `X is -16 >> 2.`, `X is 5 /\ 3.`, `X is 5 \/ 3.`, `X is xor(5, 3).`, `X is \ 5.`,
		`X is abs(-9223372036854775808).`, `X is sign(-3).`, `X is min(2, 3).`, `X is max(2, 3.0).`, `X is 7 / 2.`, `X is 4 / 2.`, `X is 1 / 0.`,
		`X is 1 mod 0.`, `X is foo + 1.`, `X is _ + 1.`, `X is "a" + 0.`, `X is 65535 ^ 4.`, `X is -(-(3)).`, `X is gcd(12, 18).`,
	},
	{ // arithmetic, floats
		`X is 1.5 + 2.`, `X is 2.0 * -3.0.`, `X is 6.0 / -3.0.`, `X is 1.0e308 * 10.0.`, `X is 5.0e-324 / 2.0.`, `X is 1.0 / 0.0.`, `X is 0.1 + 0.2.`,
		`X is floor(2.5).`, `X is ceiling(2.5).`, `X is round(2.5).`, `X is truncate(-2.5).`, `X is floor(9223372036854775808.0).`, `X is float(3).`,
		`X is float_integer_part(-2.5).`, `X is float_fractional_part(-2.5).`, `X is sqrt(2.0).`, `X is sqrt(-1.0).`, `X is 2 ** 3.`, `X is 2.0 ** 0.5.`,
		`X is 2 ** -1.`, `X is exp(0).`, `X is log(1).`, `X is sin(0.0).`, `X is cos(0.0).`, `X is atan2(1, 1).`, `X is pi.`, `X is e.`, `X is max_integer.`,
		`X is 1.0e10.`, `X is 123456789.0 * 1000.0.`, `X is 1.0e-5.`, `X is -0.0.`, `1 =:= 1.0.`, `1 < 1.5.`, `2 >= 2.0.`, `9007199254740993 =:= 9007199254740992.0.`,
	},
	{ // unification, comparison, sorting
		`f(X, b) = f(a, Y).`, `f(X, X) = f(a, b).`, `X = f(X), fail.`, `unify_with_occurs_check(X, f(X)).`, `[H|T] = [1, 2, 3].`, `"abc" = [a|T].`,
		`compare(O, 1, 1.0).`, `compare(O, a, "a").`, `compare(O, f(a), g).`, `compare(O, f(a, b), g(a)).`, `compare(O, 9223372036854775807, -1).`,
		`sort([c, 1, b, 2.0, a, f(x), "s", 1], L).`, `msort([b, a, b], L).`, `keysort([2-a, 1-b, 2-c, 1-d], L).`, `sort(0, @>=, [1, 3, 2, 3], L).`,
		`X == X.`, `X \== Y.`, `f(a) @< f(b).`, `[1,2] @< [1,2,3].`, `atom(foo).`, `atomic("s").`, `compound(f(x)).`, `var(_).`, `callable(foo).`, `is_list([a|_]).`,
		`functor(foo(a, b), N, A).`, `functor(T, foo, 3).`, `arg(2, f(a, b, c), X).`, `arg(N, f(a, b), X).`, `f(a, b) =.. L.`, `T =.. [foo, 1, 2].`, `copy_term(f(X, Y, X), C).`,
		`subsumes_term(f(_), f(a)).`, `term_variables(f(X, g(Y, X)), L).`, `acyclic_term([a, b]).`,
	},
	{ // control, exceptions, database
		`path(a, X).`, `fact(10, F).`, `fib(10, F).`, `nrev([1, 2, 3, 4, 5], R).`, `app(X, Y, [1, 2]).`, `member(X, [a, b, c]).`, `\+ member(z, [a, b]).`,
		`(member(X, [1, 2, 3]), X > 1 -> true ; X = none).`, `once(member(X, [a, b])).`, `member(X, [1, 2, 3]), !.`, `call((member(X, [1, 2]), !)).`,
		`catch(throw(my), E, true).`, `catch(atom_length(1, _), error(E, _), true).`, `catch(undefined_pred_xyz, error(E, _), true).`, `catch((X = 1, throw(t)), _, true).`,
		`catch(member(X, [1, 2]), _, true).`, `atom_length(X, Y).`, `assertz(cnt(1)), findall(X, cnt(X), L).`, `retract(cnt(0)), findall(X, cnt(X), L).`,
		`asserta(cnt(5)), cnt(X).`, `retract(cnt(X)), X > 0.`, `findall(X, cnt(X), L).`, `abolish(foo/1).`, `assertz((dyn(X) :- X > 1 ; X < 0)), dyn(2).`, `clause(path(X, Y), B).`,
		`findall(X-Y, (member(X, [1, 2]), member(Y, [a, b])), L).`, `bagof(N, age(N, A), L).`, `setof(A-N, age(N, A), L).`, `bagof(N, A^age(N, A), L).`, `setof(X, member(X, []), L).`,
		`forall_missing(1).`, `between(1, 3, X).`, `length(L, 2).`, `length([a|T], 3).`, `succ(X, 4).`, `succ(0, X).`, `nth0(1, [a, b, c], X).`, `nth1(I, [a, b], b).`, `call_nth(member(X, [a, b, c]), 2).`,
	},
	{ // atoms, strings, number text
		`atom_length('héllo', L).`, `atom_concat(X, Y, abc).`, `atom_concat(abc, def, X).`, `sub_atom(abcde, 1, 3, A, S).`, `sub_atom(abc, B, 2, A, S).`, `sub_atom('日本語', B, 1, 0, S).`,
		`atom_chars(X, [a, b]).`, `atom_chars(abc, L).`, `atom_codes(abc, L).`, `atom_codes(X, "abc").`, `char_code(C, 97).`, `char_code(a, X).`, `char_code(C, 4294967393).`,
		`number_codes(X, "  42").`, `number_chars(X, ['1', '.', '5', 'e', '3']).`, `number_chars(X, ['0', x, f, f]).`, `number_codes(X, "0'a").`, `number_chars(X, [a]).`,
		`atom_number_missing(a, b).`, `number_codes(1.0e10, L), atom_codes(A, L).`, `number_codes(-0.0, L), atom_codes(A, L).`, `number_codes(123456789012345680000.0, L), atom_codes(A, L).`,
		`number_codes(5.0e-324, L), atom_codes(A, L).`, `number_codes(9223372036854775807, L), atom_codes(A, L).`, `X = 'hello world'.`, `X = [].`, `X = '[]'.`, `X = {}.`, `X = 'a''b'.`,
		`X = "a\nb".`, `X = 0'a.`, `X = 0x1F.`, `X = 0b101.`, `X = 0o17.`, `X = 1.0Inf.`, `X = a- -1.`, `X = - 1.`, `X = -(1).`, `X = -(-(1)).`, `X = 1 - 2 - 3.`, `X = 2 ** 3 ** 4.`, `X = (a :- b, c ; d -> e).`,
		`X = \+a.`, `X = [a, b|c].`, `X = '$VAR'(1).`, `X = f(A, B, A).`, `X = - - a.`, `X = \ (-).`, `X = (-)-(-).`, `X = [-].`, `X = {a, b}.`, `X = '\\'.`, `X = f(:-, (:-), ;).`,
	},
	{ // operators, reading, writing, DCG, flags
		`op(700, xfx, ===), X = (a === b), X =.. L.`, `op(200, xfy, ^^), X = 1 ^^ 2 ^^ 3, X = ^^(A, B).`, `op(0, xfx, ===), catch(atom_to_term_missing, _, true).`,
		`op(1201, xfx, foo).`, `op(700, abc, foo).`, `op(700, xfx, ',').`, `op(200, xfx, '|').`, `op(1100, xfx, '|').`, `op(700, xfx, []).`, `op(_, xfx, foo).`,
		`op(700, xfx, [foo, bar]), findall(P-T, current_op(P, T, bar), L).`, `op(200, xf, foo).`, `findall(P-T, current_op(P, T, mod), L).`, `findall(T-N, current_op(1200, T, N), L0), sort(L0, L).`, `findall(P-N, current_op(P, xfy, N), L0), sort(L0, L).`,
		`phrase(greeting, [hello, world]).`, `phrase(greeting, [hello, X]).`, `phrase(digits(Ds), ['1', '2', a], R).`, `phrase(name, L).`, `expand_term((a --> b, [c], {d}, !), X).`, `expand_term((a, [x] --> b), X).`,
		`current_prolog_flag(bounded, X).`, `current_prolog_flag(max_integer, X).`, `current_prolog_flag(double_quotes, X).`, `set_prolog_flag(double_quotes, atom), current_prolog_flag(double_quotes, X).`,
		`set_prolog_flag(unknown, fail), nonexistent_abc.`, `set_prolog_flag(foo, bar).`, `current_char_conversion(a, X).`, `write(f(x, "s", 'A b', [1, 2|T], 1.0, -1, - 1, a+b*c, (a, b), {x})), nl.`,
		`writeq(f(x, "s", 'A b', [1, 2], 1.0, -1, - 1, a+b*c, (a:-b), 'hello'(1), [])), nl.`, `write_canonical(f(X, Y, "ab", 'x y', 1 + 2)), nl.`, `print_missing(1).`, `write_term(f(X, 1+2), [quoted(true), ignore_ops(true)]), nl.`,
		`writeq('/*'), nl.`, `writeq(//), nl.`, `writeq(- (1)), nl.`, `writeq(1 - (-1)), nl.`, `writeq(2 - (1 - 1)), nl.`, `writeq((a , b)), nl.`, `writeq(','(a)), nl.`, `writeq([a|b]), nl.`, `writeq('\n'), nl.`, `writeq(f(;, '|', '[]')), nl.`,
		`writeq(- a), nl.`, `writeq(\+ (a, b)), nl.`, `writeq(1.0e100), nl.`, `writeq(-0.0), nl.`, `writeq(1.0e-10), nl.`, `writeq(0.000123), nl.`, `writeq(123456789012345678), nl.`, `put_char(x), nl.`,
		`read(X).`, `read_term(X, [variable_names(V)]).`, `peek_char(C), get_char(D).`, `get_char(C).`, `read(X).`, `at_end_of_stream.`, `get_char(C).`, `peek_char(C).`,
	},
}

func H_selftest(inst int) {
	var out bytes.Buffer
	i := New(strings.NewReader("foo(Bar, 'b c'). [1, 2|T]. ab"), &out)
	if err := i.Exec(selftestSetup); err != nil {
		verify(false, "SELFTEST setup failed: "+err.Error())
		return
	}
	var tr strings.Builder
	for _, q := range selftestQueries[inst%len(selftestQueries)] {
		tr.WriteString("?- " + q + "\n")
		out.Reset()
		sols, err := i.Query(q)
		if err != nil {
			tr.WriteString("  query error: " + err.Error() + "\n")
			continue
		}
		n := 0
		for n < 12 && sols.Next() {
			n++
			m := map[string]interface{}{}
			if err := sols.Scan(m); err != nil {
				tr.WriteString("  scan error: " + err.Error() + "\n")
				continue
			}
			// render the bindings through the engine's writer, in variable-name order
			var names []string
			for k := range m {
				names = append(names, k)
			}
			sortStrings(names)
			tr.WriteString("  ")
			for _, k := range names {
				tr.WriteString(k + "=" + selftestRender(sols, k) + " ")
			}
			tr.WriteString("\n")
		}
		if err := sols.Err(); err != nil {
			tr.WriteString("  error: " + err.Error() + "\n")
		}
		sols.Close()
		if out.Len() > 0 {
			tr.WriteString("  output: " + out.String() + "\n")
		}
		tr.WriteString("  answers: " + itoa(n) + "\n")
	}
	verify(false, "SELFTEST\n"+tr.String())
}

func sortStrings(a []string) {
	for i := 1; i < len(a); i++ {
		for j := i; j > 0 && a[j] < a[j-1]; j-- {
			a[j], a[j-1] = a[j-1], a[j]
		}
	}
}

// selftestRender writes the binding of a query variable with writeq's options.
func selftestRender(sols *Solutions, name string) string {
	for _, v := range sols.vars {
		if v.Name.String() != name {
			continue
		}
		var b bytes.Buffer
		if err := v.Variable.WriteTerm(&b, &engine.WriteOptions{}, sols.env); err != nil {
			return "<write error " + err.Error() + ">"
		}
		return b.String()
	}
	return "?"
}

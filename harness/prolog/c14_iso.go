//go:build verif

package prolog

// C14 — separate interpreters are isolated and run concurrently without data races.
//
// (a) frame: one state-changing operation on interpreter A (symbolic arguments) must not write a cell reachable
//     from interpreter B or from a package-level variable other than the atom table and the variable counter, and
//     B's observers answer the same before and after;
// (b) two goroutines, each with its own interpreter (or using the engine API directly), under every interleaving
//     at lock/atomic operations within the preemption bound: each gets the answers of its solo run, interned atoms
//     are unique per name, fresh variables are distinct, and no package-level cell is accessed by both without a
//     common lock (lockset analysis over the executor's access log).

import (
	"bytes"
	"context"
	"strings"

	"github.com/ichiban/prolog/engine"
)

func init() {
	vHarnesses["H_C14_frame"] = H_C14_frame
	vHarnesses["H_C14_atoms"] = H_C14_atoms
	vHarnesses["H_C14_two"] = H_C14_two
	vHarnesses["H_C14_two_deep"] = H_C14_two_deep
}

type c14Pair struct {
	a, b       *Interpreter
	outA, outB *bytes.Buffer
}

const c14Init = `
:- dynamic(p/1).
:- dynamic(q/1).
p(1). p(2).
q(X) :- p(X).
forall_c14(C, A) :- \+ (C, \+ A).
`

func c14NewPair() *c14Pair {
	return setupOnce("c14pair", func() interface{} {
		pr := &c14Pair{outA: &bytes.Buffer{}, outB: &bytes.Buffer{}}
		pr.a = New(strings.NewReader("a_in. "), pr.outA)
		pr.b = New(strings.NewReader("b_in. "), pr.outB)
		if err := pr.a.Exec(c14Init); err != nil {
			panic(err)
		}
		if err := pr.b.Exec(c14Init); err != nil {
			panic(err)
		}
		return pr
	}).(*c14Pair)
}

// c14Observers are run on the untouched interpreter; each prints what it sees to that interpreter's user_output.
var c14Observers = []string{
	`forall_c14(current_op(P, T, N), (write(P-T-N), nl)).`,
	`forall_c14(clause(p(X), B), (write(p(X)-B), nl)).`,
	`forall_c14(clause(q(X), B), (X = 'V', write(q(X)-B), nl)).`,
	`forall_c14(current_prolog_flag(F, V), (write(F-V), nl)).`,
	`forall_c14(current_char_conversion(a, C), (write(C), nl)).`,
	`findall(PI, current_predicate(PI), L), sort(L, S), write(S), nl.`,
	`current_output(S), (stream_property(S, alias(A)) -> write(A) ; write(noalias)), nl.`,
	`current_input(S), (stream_property(S, alias(A)) -> write(A) ; write(noalias)), nl.`,
	`catch(undefined_c14, error(E, _), (write(E), nl)).`,
	`X = "ab", write(X), nl.`,
	`peek_char(C), write(C), nl.`,
	`atom_length(hello, L), write(L), nl.`,
	`catch(hello_c14(W), error(E, _), (write(E), nl)), (var(W) -> true ; write(W), nl).`,
}

func c14Observe(i *Interpreter, out *bytes.Buffer, which int) string {
	out.Reset()
	for k, q := range c14Observers {
		if which >= 0 && k != which {
			continue
		}
		sols, err := i.Query(q)
		if err != nil {
			out.WriteString("query error: " + err.Error() + "\n")
			continue
		}
		for sols.Next() {
		}
		if err := sols.Err(); err != nil {
			out.WriteString("error: " + err.Error() + "\n")
		}
		sols.Close()
	}
	return out.String()
}

var c14OpTypes = []string{"xfx", "xfy", "yfx", "fy", "fx", "xf", "yf"}
var c14OpNames = []string{"foo", "+", "mod", "=", "-->"}
var c14FlagVals = [][2]string{{"double_quotes", "codes"}, {"double_quotes", "chars"}, {"double_quotes", "atom"},
	{"unknown", "fail"}, {"unknown", "warning"}, {"unknown", "error"}, {"char_conversion", "on"}, {"debug", "on"}}

// c14Mutate performs one state-changing operation on i; which selects the operation.
func c14Mutate(i *Interpreter, which int) bool {
	ok := true
	run := func(q string, args ...interface{}) {
		sols, err := i.Query(q, args...)
		if err != nil {
			ok = false
			return
		}
		n := 0
		for sols.Next() {
			n++
		}
		if n == 0 || sols.Err() != nil {
			ok = false
		}
		if err := sols.Err(); err != nil {
			_ = err.Error() // formatting an error is part of ordinary use of the API
		}
		sols.Close()
	}
	switch which {
	case 0:
		p := nondetInt("prio")
		assume(p >= 0 && p <= 1200)
		t := c14OpTypes[choice("type", len(c14OpTypes))]
		n := c14OpNames[choice("name", len(c14OpNames))]
		run("op(?, "+t+", '"+n+"').", p)
	case 1:
		n := nondetInt("n")
		run(`assertz(p(?)).`, n)
	case 2:
		n := nondetInt("n")
		run(`asserta((p(?) :- true)).`, n)
	case 3:
		n := nondetInt("n")
		assume(n >= 0 && n <= 3)
		run(`retract(p(?)).`, n)
	case 4:
		run(`abolish(p/1).`)
	case 5:
		fv := c14FlagVals[choice("flag", len(c14FlagVals))]
		run("set_prolog_flag(" + fv[0] + ", " + fv[1] + ").")
	case 6:
		run(`char_conversion(a, b).`)
	case 7:
		ok = i.Exec(":- dynamic(r/2). r(1, 2). q(X) :- r(X, _). hello_c14(world).") == nil
	case 8:
		run(`get_char(_), peek_char(_), current_output(S), set_output(S).`)
	case 9:
		run(`set_input(user_input), read(_).`)
	case 10:
		i.Register1(engine.NewAtom("hello_c14"), func(vm *engine.VM, t engine.Term, k engine.Cont, env *engine.Env) *engine.Promise {
			return engine.Unify(vm, t, engine.NewAtom("registered"), k, env)
		})
	case 11:
		i.SetUserOutput(engine.NewOutputTextStream(&bytes.Buffer{}))
	case 12:
		i.SetUserInput(engine.NewInputTextStream(strings.NewReader("other. ")))
	case 13:
		ok = i.Exec("term_expansion(x_c14(X), y_c14(X)). goal_expansion(g_c14, true). x_c14(1).") == nil
	case 14:
		run(`retractall(p(_)), retractall(r_c14(_)).`)
	case 15:
		run(`atom_chars(A, "brand_new_atom_c14"), assertz(p(A)), X = f(_, _, _), assertz(p(X)).`)
	case 16:
		run(`catch(throw(my_ball), _, true), p(X), undefined_pred_c14(X).`)
		ok = true
	case 17:
		run(`assertz(undefined_c14), assertz((undefined_c14 :- fail)).`)
	case 18:
		i.Unknown = func(name engine.Atom, args []engine.Term, env *engine.Env) {}
		run(`set_prolog_flag(unknown, warning), undefined_pred_c14.`)
		ok = true
	case 19:
		run(`catch(open_null_c14, _, true), write(to_a), nl, flush_output.`)
	case 20:
		// loading files: each interpreter has its own file system; the same name is a different text in each
		run(`consult(shared_c14), consult(only_a_c14), greeting_c14(hello), secret_c14(_).`)
	case 21:
		run(`ensure_loaded(shared_c14), greeting_c14(hello).`)
	// operations that only read: they must not write anything shared either
	case 22:
		run(`forall_c14(current_prolog_flag(_, _), true), current_prolog_flag(double_quotes, _), current_prolog_flag(bounded, true).`)
	case 23:
		run(`forall_c14(current_op(_, _, _), true), write_canonical(f(X, 'a b', "s", [1, 2|T], - 1, 1.5e10)), nl, print_message_c14 ; true.`)
	case 24:
		run(`findall(X-Y, (member(X, [c, a, b]), member(Y, [2, 1])), L), sort(L, S), keysort(L, K), length(S, N), atom_length(abc, _), atom_chars(A, [x, y]), sub_atom(hello, 1, 2, _, Sub), number_codes(Num, "42"), X2 is 2 ** 10 + max(1, 2).`)
	case 25:
		run(`catch(atom_length(1, 2, 3), E, true), catch(atom_length(_, _), E2, true), catch(foo_c14(1), E3, true), copy_term(f(A, B, A), C), term_variables(C, Vs), compare(O, f(A), g(B)), f(A) @< g(B).`)
	}
	return ok
}

const c14NOps = 26

func H_C14_frame(inst int) {
	pr := c14NewPair()
	which := inst % c14NOps
	swap := inst >= c14NOps // thorough: mutate B, observe A
	a, b, outB := pr.a, pr.b, pr.outB
	if swap {
		a, b, outB = pr.b, pr.a, pr.outA
	}
	a.FS = c13FS{"shared_c14.pl": "greeting_c14(hello).\n", "only_a_c14.pl": "secret_c14(xyzzy).\n"}
	b.FS = c13FS{"shared_c14.pl": "greeting_c14(bonjour).\n"}
	before := c14Observe(b, outB, -1)
	verify(!strings.Contains(before, "error: "), "harness: an observer query failed: "+before)
	frameBegin(b, []string{"github.com/ichiban/prolog/engine.atomTable", "github.com/ichiban/prolog/engine.varCounter"})
	ok := c14Mutate(a, which)
	w := frameEnd()
	reach("c14/mutated", ok)
	verifyExec(w == "", "an operation on one interpreter wrote outside its own state: "+w)
	after := c14Observe(b, outB, -1)
	verify(before == after, "an operation on interpreter A changed what interpreter B observes:\nbefore:\n"+c14Diff(before, after))
	if which >= 20 {
		// B loads the file of the same name from ITS file system, and cannot load a file only A's file system has
		verify(b.QuerySolution("consult(shared_c14), greeting_c14(X), X == bonjour.").Err() == nil, "interpreter B loading a file of the same name does not get the text of its own file system")
		verify(b.QuerySolution("greeting_c14(hello).").Err() != nil, "a clause loaded by interpreter A is visible in B")
		verify(b.QuerySolution("catch(consult(only_a_c14), error(existence_error(_, _), _), fail).").Err() != nil, "interpreter B can load a file that only exists in A's file system")
	}
	reach("c14/frame", true)
}

func c14Diff(a, b string) string {
	la, lb := strings.Split(a, "\n"), strings.Split(b, "\n")
	for i := 0; i < len(la) || i < len(lb); i++ {
		var x, y string
		if i < len(la) {
			x = la[i]
		}
		if i < len(lb) {
			y = lb[i]
		}
		if x != y {
			return "line " + itoa(i) + ": " + x + "  =>  " + y
		}
	}
	return ""
}

func itoa(i int) string {
	if i == 0 {
		return "0"
	}
	s := ""
	for i > 0 {
		s = string(rune('0'+i%10)) + s
		i /= 10
	}
	return s
}

// ---- (b) concurrency ----

type c14AtomRes struct {
	ids   [3]engine.Atom
	names [3]string
	strs  [3]string
	vars  [2]engine.Variable
}

// per instance: which name each goroutine interns at its three calls
var c14Orders = [][2][3]int{
	{{0, 1, 0}, {1, 0, 1}}, // the same two new names in opposite orders
	{{0, 0, 2}, {0, 2, 0}}, // one new name (twice) and an existing one
	{{0, 1, 3}, {3, 1, 0}}, // three new names, reversed
	{{0, 2, 1}, {2, 3, 2}}, // disjoint new names around a shared existing one
}

var c14Names = []string{"c14_fresh_one", "c14_fresh_two", "append", "c14_fresh_three"}

// H_C14_atoms: two goroutines use the shared tables directly (NewAtom, Atom.String, NewVariable) with names that are
// new to the process, in an order chosen per goroutine by case split.
func H_C14_atoms(inst int) {
	order := c14Orders[inst%len(c14Orders)]
	if !symbolicRun() {
		// native replay: the Go scheduler cannot be forced, so the scenario is repeated with fresh names
		for round := 0; round < 3000; round++ {
			c14AtomsRound(order, "_r"+itoa(round))
		}
		return
	}
	c14AtomsRound(order, "")
}

func c14AtomsRound(order [2][3]int, suffix string) {
	done := make(chan *c14AtomRes)
	raceBegin()
	for g := 0; g < 2; g++ {
		g := g
		go func() {
			r := &c14AtomRes{}
			for k := 0; k < 3; k++ {
				r.names[k] = c14Names[order[g][k]]
				if order[g][k] != 2 {
					r.names[k] += suffix
				}
				r.ids[k] = engine.NewAtom(r.names[k])
				if k < 2 {
					r.vars[k] = engine.NewVariable()
				}
			}
			for k := 0; k < 3; k++ {
				r.strs[k] = r.ids[k].String()
			}
			done <- r
		}()
	}
	r1, r2 := <-done, <-done
	race := raceEnd()
	verifyExec(race == "", "data race: "+race)
	all := []*c14AtomRes{r1, r2}
	for _, r := range all {
		for k := 0; k < 3; k++ {
			verify(r.strs[k] == r.names[k], "an interned atom does not print as the name it was created from: "+r.names[k]+" -> "+r.strs[k])
			verify(engine.NewAtom(r.names[k]) == r.ids[k], "interning the same name again gives a different atom: "+r.names[k])
		}
	}
	for k := 0; k < 3; k++ {
		for j := 0; j < 3; j++ {
			same := r1.names[k] == r2.names[j]
			verify(same == (r1.ids[k] == r2.ids[j]), "two goroutines interning "+r1.names[k]+" and "+r2.names[j]+" disagree on atom identity")
		}
	}
	vs := []engine.Variable{r1.vars[0], r1.vars[1], r2.vars[0], r2.vars[1]}
	for x := 0; x < len(vs); x++ {
		for y := x + 1; y < len(vs); y++ {
			verify(vs[x] != vs[y], "NewVariable returned the same variable twice")
		}
	}
	reach("c14/atoms", true)
}

var c14Programs = []struct{ text, query, want string }{
	{"fact_c14(brand_new_c14).", "fact_c14(brand_new_c14), fact_c14(X), atom_length(X, L), write(X-L), nl.", "brand_new_c14-13\n"},
	{"edge_c14(na_c14, nb_c14). edge_c14(nb_c14, nc_c14). path_c14(X, Y) :- edge_c14(X, Y). path_c14(X, Z) :- edge_c14(X, Y), path_c14(Y, Z).",
		"forall_c14(path_c14(na_c14, Y), (write(Y), nl)).", "nb_c14\nnc_c14\n"},
	{"len_c14(X, L) :- catch(atom_length(X, L), error(E, _), (write(E), nl)).", "len_c14(f(g(h(1))), _), catch(atom_length(1, foo), Ball, true), atom_length(L, _).", "ERR"},
	{"fl_c14 :- \\+ (current_prolog_flag(F, V), \\+ (write(F-V), nl)).", "fl_c14.", "SOLO"},
	{":- dynamic(cnt_c14/1). cnt_c14(0).", "retract(cnt_c14(N)), M is N + 1, assertz(cnt_c14(M)), cnt_c14(V), write(V), nl, atom_chars(A, \"made_c14\"), write(A), nl, A == made_c14.", "1\nmade_c14\n"},
}

// H_C14_two: two goroutines, each consulting a program and running a query on its own interpreter; the programs
// intern names that are new to the process. Every interleaving at lock/atomic operations within the preemption bound.
func H_C14_two(inst int) {
	pr := c14NewPair()
	progA := c14Programs[inst%len(c14Programs)]
	progB := c14Programs[(inst/len(c14Programs))%len(c14Programs)]
	type res struct {
		ok  bool
		err string
		out string
	}
	runOne := func(i *Interpreter, out *bytes.Buffer, p struct{ text, query, want string }) res {
		out.Reset()
		if err := i.Exec(p.text); err != nil {
			return res{err: "consult: " + err.Error()}
		}
		// the query is run on the calling goroutine (Query would add a search goroutine per interpreter, whose channel
		// handshakes multiply the schedules without touching shared state)
		ps := engine.NewParser(&i.VM, strings.NewReader(p.query))
		t, err := ps.Term()
		if err != nil {
			return res{err: "query: " + err.Error()}
		}
		ok, err := engine.Call(&i.VM, t, engine.Success, nil).Force(context.Background())
		e := ""
		if err != nil {
			e = err.Error()
		}
		if p.want == "ERR" {
			// this program ends in an uncaught instantiation error: the solo expectation is that error text
			return res{ok: e == "error(instantiation_error,atom_length/2)", err: "", out: "ERR"}
		}
		return res{ok: ok, err: e, out: out.String()}
	}
	// a program whose expectation is "SOLO" is idempotent: its expected result is what it gives when run alone first
	// (A and B get different flag values beforehand, so that their listings differ)
	_ = pr.a.Exec(":- set_prolog_flag(debug, on), set_prolog_flag(unknown, fail).")
	_ = pr.b.Exec(":- set_prolog_flag(char_conversion, on).")
	if progA.want == "SOLO" {
		progA.want = runOne(pr.a, pr.outA, progA).out
	}
	if progB.want == "SOLO" {
		progB.want = runOne(pr.b, pr.outB, progB).out
	}
	done := make(chan int)
	var ra, rb res
	raceBegin()
	go func() { ra = runOne(pr.a, pr.outA, progA); done <- 1 }()
	go func() { rb = runOne(pr.b, pr.outB, progB); done <- 2 }()
	<-done
	<-done
	race := raceEnd()
	verifyExec(race == "", "data race: "+race)
	verify(ra.ok && ra.err == "" && ra.out == progA.want, "interpreter A running concurrently with B does not give its solo answers: ok="+bstr(ra.ok)+" err="+ra.err+" out="+ra.out)
	verify(rb.ok && rb.err == "" && rb.out == progB.want, "interpreter B running concurrently with A does not give its solo answers: ok="+bstr(rb.ok)+" err="+rb.err+" out="+rb.out)
	reach("c14/two", true)
}

// H_C14_two_deep: the diagonal program pairs of H_C14_two (both goroutines run the same program), explored with a larger
// preemption bound (thorough tier).
func H_C14_two_deep(inst int) { H_C14_two(inst * (len(c14Programs) + 1)) }

func bstr(b bool) string {
	if b {
		return "true"
	}
	return "false"
}

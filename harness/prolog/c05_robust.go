//go:build verif

package prolog

// C05 — no input crashes or wedges the host; every failure is a Prolog error term.

import (
	"strings"

	"github.com/ichiban/prolog/engine"
)

func init() {
	vHarnesses["H_C05_text"] = H_C05_text
	vHarnesses["H_C05_builtins"] = H_C05_builtins
	vHarnesses["H_C05_builtinsQ"] = H_C05_builtinsQ
}

type c05Tmpl struct {
	pre, post string
	n         int // symbolic bytes
}

var c05Tmpls = []c05Tmpl{
	{"", "", 2}, {"X = ", ".", 2}, {"p(", ").", 2}, {"'", "'.", 2}, {"\"", "\".", 2}, {"0", ".", 2}, {"a ", " b.", 2},
	{"[", "", 2}, {"{", "", 2}, {"- ", "", 2}, {"f(", "", 2}, {":- ", ".", 2}, {"X = a", "", 2}, {"`", "`.", 2}, {"/*", "", 2}, {"%", "\n", 2},
	{"0'", ".", 2}, {"0x", ".", 2}, {"1.", "", 2}, {"1.0e", ".", 2}, {"'\\", "'.", 2}, {"a:-", ".", 2}, {"[a|", "", 2}, {"\\", "", 2},
	// three bytes (thorough)
	{"", "", 3}, {"X = ", ".", 3}, {"[", "", 3}, {"'", "'.", 3}, {"0", ".", 3}, {"- ", "", 3}, {"f(", "", 3}, {"{", "", 3},
}

func isPanicResidue(err error) bool {
	return err != nil && strings.HasPrefix(err.Error(), "panic:")
}

// H_C05_text: inst = template*2 + domain (0 ASCII bytes, 1 all byte values).
func H_C05_text(inst int) {
	t := c05Tmpls[inst/2]
	wide := inst%2 == 1
	bs := make([]byte, t.n)
	for k := range bs {
		bs[k] = nondetUint8("b" + string(rune('0'+k)))
		if !wide {
			assume(bs[k] < 0x80)
		}
	}
	text := t.pre + string(bs) + t.post
	note("template", t.pre+"<"+string(rune('0'+t.n))+" bytes>"+t.post)
	i := newFull()
	// (1) the reader alone
	panicked := false
	var perr error
	func() {
		defer func() {
			if r := recover(); r != nil {
				panicked = true
			}
		}()
		p := engine.NewParser(&i.VM, strings.NewReader(text))
		_, perr = p.Term()
	}()
	verify(!panicked, "a Go panic escaped the reader")
	verify(!isPanicResidue(perr), "the reader returned the residue of a recovered Go panic")
	// (2) Exec of the same text
	panicked = false
	var eerr error
	func() {
		defer func() {
			if r := recover(); r != nil {
				panicked = true
			}
		}()
		eerr = i.Exec(text)
	}()
	verify(!panicked, "a Go panic escaped Exec")
	verify(!isPanicResidue(eerr), "Exec returned the residue of a recovered Go panic")
	reach("c05/text", true)
}

// H_C05_builtins: predicate number inst of the table registered by New() (bootstrap included) x argument shapes.
func H_C05_builtins(inst int) {
	i := newFull()
	engine.VH_C05_builtins(&i.VM, inst, false)
}

// H_C05_builtinsQ: the same with the 8-shape menu (quick tier).
func H_C05_builtinsQ(inst int) {
	i := newFull()
	engine.VH_C05_builtins(&i.VM, inst, true)
}

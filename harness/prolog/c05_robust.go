//go:build verif

package prolog

// C05 — no input crashes or wedges the host; every failure is a Prolog error term.

import (
	"strings"

	"github.com/ichiban/prolog/engine"
)

func init() {
	vHarnesses["H_C05_text"] = H_C05_text
	vHarnesses["H_C05_deep"] = H_C05_deep
	vHarnesses["H_C05_load"] = H_C05_load
	vHarnesses["H_C05_exhaust"] = H_C05_exhaust
	vHarnesses["H_C05_compose"] = H_C05_compose
	vHarnesses["H_C05_literals"] = H_C05_literals
	vHarnesses["H_C05_builtins"] = H_C05_builtins
	vHarnesses["H_C05_builtinsQ"] = H_C05_builtinsQ
}

type c05Tmpl struct {
	pre, post string
	n         int // symbolic bytes
}

var c05Tmpls = []c05Tmpl{
	{"", "", 2}, {"X = ", ".", 2}, {"p(", ").", 2}, {"'", "'.", 2}, {"\"", "\".", 2}, {"0", ".", 2}, {"a ", " b.", 2},
	{"[", "", 2}, {"{", "", 2}, {"- ", "", 2}, {"f(", "", 2}, {":- ", ".", 2}, {"X = a", "", 2}, {"`", "`.", 2}, {"/*", "", 2}, {"%", "\n", 2},
	{"0'", ".", 2}, {"0x", ".", 2}, {"1.", "", 2}, {"1.0e", ".", 2}, {"'\\", "'.", 2}, {"a:-", ".", 2}, {"[a|", "", 2}, {"\\", "", 2},
	// three bytes (thorough)
	{"", "", 3}, {"X = ", ".", 3}, {"[", "", 3}, {"'", "'.", 3}, {"0", ".", 3}, {"- ", "", 3}, {"f(", "", 3}, {"{", "", 3},
}

func isPanicResidue(err error) bool {
	return err != nil && strings.HasPrefix(err.Error(), "panic:")
}

// H_C05_text: inst = template*2 + domain (0 ASCII bytes, 1 all byte values).
func H_C05_text(inst int) {
	t := c05Tmpls[inst/2]
	wide := inst%2 == 1
	bs := make([]byte, t.n)
	for k := range bs {
		bs[k] = nondetUint8("b" + string(rune('0'+k)))
		if !wide {
			assume(bs[k] < 0x80)
		}
	}
	text := t.pre + string(bs) + t.post
	note("template", t.pre+"<"+string(rune('0'+t.n))+" bytes>"+t.post)
	i := newFull()
	// (1) the reader alone
	panicked := false
	var perr error
	func() {
		defer func() {
			if r := recover(); r != nil {
				panicked = true
			}
		}()
		p := engine.NewParser(&i.VM, strings.NewReader(text))
		_, perr = p.Term()
	}()
	verify(!panicked, "a Go panic escaped the reader")
	verify(!isPanicResidue(perr), "the reader returned the residue of a recovered Go panic")
	// (2) Exec of the same text
	panicked = false
	var eerr error
	func() {
		defer func() {
			if r := recover(); r != nil {
				panicked = true
			}
		}()
		eerr = i.Exec(text)
	}()
	verify(!panicked, "a Go panic escaped Exec")
	verify(!isPanicResidue(eerr), "Exec returned the residue of a recovered Go panic")
	reach("c05/text", true)
}

// c05Literals: number, atom and string literals at the limits of their notations. The digits are concrete (number
// text runs natively, DESIGN 2.2); the family widens what the symbolic-byte templates cannot reach in 2..3 bytes:
// exponents and digit strings beyond every machine range, escapes with huge code points, long tokens.
var c05Literals = []string{
	`X = 1.0e2147483647.`, `X = 1.0e2147483648.`, `X = 1.0e99999999999999999999.`, `X = 1.0e-2147483648.`, `X = 1.0e-2147483649.`,
	`X = 1.0e400.`, `X = 1.0e-400.`, `X = 1.0e+309.`, `X = 1.7976931348623157e308.`, `X = 1.7976931348623159e308.`, `X = 4.9e-324.`, `X = 2.0e-324.`,
	`X = 0.0e2147483648.`, `X = -1.0e2147483648.`, `X = - 1.0e2147483648.`, `X is 1.0e2147483648 + 1.`, `X = f(1.0e2147483648).`, `X = [1.0e2147483648].`,
	`X = 99999999999999999999999999999.`, `X = -99999999999999999999999999999.`, `X = 9223372036854775808.`, `X = -9223372036854775808.`, `X = -9223372036854775809.`,
	`X = 0x7fffffffffffffff.`, `X = 0x8000000000000000.`, `X = 0x99999999999999999999.`, `X = 0b1111111111111111111111111111111111111111111111111111111111111111.`,
	`X = 0o7777777777777777777777.`, `X = 0'\x99999999999999999999\.`, `X = 0'\x110000\.`, `X = 0'\xD800\.`, `X = 0'\777777777777\.`,
	`X = "\x99999999999999999999\".`, `X = '\x99999999999999999999\'.`, `X = '\x110000\'.`, `X = "\777777777777\".`, `X = 'a\x0\b'.`,
	`X = 1.e5.`, `X = 1.0e.`, `X = 1.0e+.`, `X = 1e5.`, `X = 1.0E5.`, `X = 0.1e-.`, `X = 1 .0.`, `X = 0'.`, `X = 0''.`, `X = 0'''.`, `X = 0x.`, `X = 0b2.`, `X = 0o8.`,
	`number_codes(X, "1.0e2147483648").`, `number_chars(X, ['1', '.', '0', e, '2', '1', '4', '7', '4', '8', '3', '6', '4', '8']).`, `atom_length(A, 1.0e2147483648).`,
	`X = 000000000000000000000000000000000000000000000000000000000000000000000000000000000000000000000000000000000000000000000000000000000000000000000001.`,
	`X = 0.000000000000000000000000000000000000000000000000000000000000000000000000000000000000000000000000000000000000000000000000000000000000000000000001.`,
	`X = 1000000000000000000000000000000000000000000000000000000000000000000000000000000000000000000000000000000000000000000000000000000000000000000000.0.`,
}

// H_C05_literals: literal number inst through the reader, Exec and Query (answers consumed).
func H_C05_literals(inst int) {
	text := c05Literals[inst]
	note("text", text)
	i := newFull()
	run := func(what string, f func() error) {
		panicked := false
		var err error
		func() {
			defer func() {
				if r := recover(); r != nil {
					panicked = true
				}
			}()
			err = f()
		}()
		verify(!panicked, "a Go panic escaped "+what)
		verify(!isPanicResidue(err), what+" returned the residue of a recovered Go panic")
	}
	run("the reader", func() error {
		p := engine.NewParser(&i.VM, strings.NewReader(text))
		_, err := p.Term()
		return err
	})
	run("Exec", func() error { return i.Exec(":- " + text) })
	run("Query", func() error {
		sols, err := i.Query(text)
		if err != nil {
			return err
		}
		for k := 0; k < 3 && sols.Next(); k++ {
		}
		err = sols.Err()
		sols.Close()
		return err
	})
	reach("c05/literal", true)
}

// c05Exhaust: goals that are driven to exhaustion (G, fail): enumerations at the extremes of the integer range and over
// every enumerating built-in must END. A path over the step budget is replayed natively; not finishing is the violation.
var c05Exhaust = []string{
	`between(9223372036854775806, 9223372036854775807, _)`, `between(9223372036854775807, 9223372036854775807, _)`,
	`between(-9223372036854775808, -9223372036854775807, _)`, `between(9223372036854775805, 9223372036854775807, X), X > 0`,
	`between(1, 3, _)`, `between(3, 1, _)`, `succ(_, 9223372036854775807)`, `succ(9223372036854775806, _)`, `length(_, 3)`, `length([a|_], 3)`,
	`nth0(_, [a, b], _)`, `nth1(_, [a, b], _)`, `sub_atom(abc, _, _, _, _)`, `atom_concat(_, _, abc)`, `append(_, _, [a, b])`, `select(_, [a, b], _)`,
	`member(_, [a, b])`, `atom_length(abc, _)`, `atom_chars(_, [a, b])`, `char_code(_, 1114111)`, `current_op(_, _, _)`, `current_prolog_flag(_, _)`,
	`clause(append(_, _, _), _)`, `stream_property(_, _)`, `current_char_conversion(_, _)`, `findall(X, between(9223372036854775806, 9223372036854775807, X), _)`,
	`bagof(X, between(9223372036854775806, 9223372036854775807, X), _)`, `\+ between(9223372036854775807, 9223372036854775807, 0)`,
	`forall_missing ; between(9223372036854775807, 9223372036854775807, X), X =:= 0`, `number_codes(_, "12")`, `sort([b, a], _)`, `keysort([b-1, a-2], _)`,
	`call_nth(between(9223372036854775806, 9223372036854775807, _), _)`, `X is 9223372036854775807, Y is X - 1, between(Y, X, _)`,
}

// H_C05_exhaust: goal inst followed by fail, through Query: Next must return false (or an error term), in bounded steps.
func H_C05_exhaust(inst int) {
	g := c05Exhaust[inst]
	note("goal", g)
	i := newFull()
	sols, err := i.Query("catch((" + g + ", fail), error(_, _), true).")
	verify(err == nil, "harness: goal does not parse: "+g)
	n := 0
	for sols.Next() {
		n++
		verify(n <= 1, "a goal followed by fail produced answers")
	}
	verify(!isPanicResidue(sols.Err()), "residue of a recovered Go panic")
	sols.Close()
	reach("c05/exhaust", true)
}

// c05Loads: file systems (in memory) whose texts load themselves or each other, and the goal that starts loading.
var c05Loads = []struct {
	fs   c13FS
	goal string
}{
	{c13FS{"a.pl": ":- ensure_loaded(a).\nfa(1).\n"}, "ensure_loaded(a)."},
	{c13FS{"a.pl": ":- consult(a).\nfa(1).\n"}, "consult(a)."},
	{c13FS{"a.pl": ":- ensure_loaded(b).\nfa(1).\n", "b.pl": ":- ensure_loaded(a).\nfb(1).\n"}, "consult(a)."},
	{c13FS{"a.pl": ":- [b].\nfa(1).\n", "b.pl": ":- [a].\nfb(1).\n"}, "[a]."},
	{c13FS{"a.pl": ":- ensure_loaded(b), ensure_loaded(b).\n", "b.pl": "fb(1).\n"}, "consult(a), consult(a), consult(b)."},
	{c13FS{"a.pl": ":- initialization(ensure_loaded(a)).\nfa(1).\n"}, "consult(a)."},
	{c13FS{"a.pl": ":- ensure_loaded(missing).\n"}, "consult(a)."},
	{c13FS{"a.pl": "fa(.\n"}, "consult(a), consult(a)."},
}

// H_C05_load: loading texts that load themselves or each other returns (an answer or an error term): no death, no hang.
func H_C05_load(inst int) {
	c := c05Loads[inst]
	note("goal", c.goal)
	i := newFull()
	i.FS = c.fs
	panicked := false
	var err error
	func() {
		defer func() {
			if r := recover(); r != nil {
				panicked = true
			}
		}()
		err = i.QuerySolution(c.goal).Err()
	}()
	verify(!panicked, "a Go panic escaped a load")
	verify(!isPanicResidue(err), "a load returned the residue of a recovered Go panic")
	reach("c05/load", true)
}

// c05Deep: programs that recurse without end THROUGH a control construct or a meta-call. Not terminating is what they
// mean; what the property forbids is that the host process dies of it.
var c05Deep = []struct{ prog, goal string }{
	{"p :- \\+ p.", "p."},
	{"p :- findall(_, p, _).", "p."},
	{"p :- catch(p, _, true).", "p."},
	{"p :- call(p), true.", "p."},
	{"p :- ( p -> true ; true ).", "p."},
	{"p(X) :- p(f(X)).", "p(a)."},
	{"p :- p, true.", "p."},
	{"p :- bagof(_, p, _).", "p."},
}

// H_C05_deep: goal inst on a program that recurses without end; death_only: a native run that keeps running is what the
// program means, the death of the process is the violation.
func H_C05_deep(inst int) {
	c := c05Deep[inst]
	note("program", c.prog+" ?- "+c.goal)
	i := newFull()
	verify(i.Exec(c.prog) == nil, "harness: program does not load")
	sol := i.QuerySolution(c.goal)
	verify(!isPanicResidue(sol.Err()), "residue of a recovered Go panic")
	reach("c05/deep", true)
}

// H_C05_compose: the term built by producer inst is handed to every consumer (engine.VH_C05_compose).
func H_C05_compose(inst int) {
	i := newFull()
	engine.VH_C05_compose(&i.VM, inst)
}

// H_C05_builtins: predicate number inst of the table registered by New() (bootstrap included) x argument shapes.
func H_C05_builtins(inst int) {
	i := newFull()
	engine.VH_C05_builtins(&i.VM, inst, false)
}

// H_C05_builtinsQ: the same with the 8-shape menu (quick tier).
func H_C05_builtinsQ(inst int) {
	i := newFull()
	engine.VH_C05_builtins(&i.VM, inst, true)
}

#!/bin/bash
# seedrun.sh <seedname> [tier] : apply the seeded patch to /repo, run the property's check, undo; print verdict line
S=$1; T=${2:-quick}
P=$(python3 -c "import json;print(json.load(open('/verif/seeded/$S/meta.json'))['property'])")
cd /repo && git diff --quiet || { echo "repo dirty"; exit 2; }
git -C /repo apply /verif/seeded/$S/patch.diff || { echo "$S: PATCH DOES NOT APPLY"; exit 3; }
out=$(/verif/bin/symgo check $P --tier $T 2>&1); rc=$?
git -C /repo checkout -- .
nv=$(echo "$out" | grep -c "^VIOLATION")
echo "$S property=$P tier=$T exit=$rc violations=$nv :: $(echo "$out" | grep "^counterexample" | head -2 | cut -c1-160 | tr '\n' '|')"

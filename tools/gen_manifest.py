#!/usr/bin/env python3
# Regenerates /verif/MANIFEST.json from tools/manifest_checks.json (per-property texts) and properties.jsonl.
import json, subprocess
props=[json.loads(l) for l in open('/verif/properties.jsonl')]
checks=json.load(open('/verif/tools/manifest_checks.json'))
m={"version":1,
 "setup_cmd":"cd /verif/symgo && GOFLAGS=-mod=mod GOPROXY=off GOSUMDB=off GOTOOLCHAIN=local go build -o /verif/bin/symgo ./cmd/symgo",
 "hooks":{"guard":"verif",
          "enable":"harness sources live in /verif/harness and are injected into the packages of /repo at load time (golang.org/x/tools/go/packages Overlay for the symbolic executor, `go test -tags verif -overlay` for native replay); /repo carries no hook commits",
          "baseline_off_cmd":"/verif/tools/repotest.sh",
          "source_commits":[],"add_only":True},
 "engines":[{"name":"symgo","path":"/verif/symgo","serves_properties":sorted(checks.keys()),
             "kind_free_text":"bounded symbolic executor for Go: fork of golang.org/x/tools/go/ssa/interp whose scalars may be SMT terms (BitVec/FloatingPoint/Int), path exploration by re-execution along decision vectors, portfolio of z3 5.1 / cvc5 1.0 / z3 4.8 processes, native replay of every counterexample"}],
 "checks":[],
 "notes":"Exit codes of every check: 0 held within the stated bounds (KNOWN-FINDING lines for listed findings); 1 + VIOLATION line: solver counterexample reproduced natively; 2 inconclusive (solver unknown, budget, unsupported construct, vacuous harness) - never a pass; 3 counterexample that did not reproduce natively (encoder fault).",
 "not_applicable":[]}
for p in props:
    pid=p['id']
    if pid in checks:
        c=checks[pid]
        m["checks"].append({"property_id":pid,
            "quick_cmd":"/verif/bin/symgo check %s --tier quick"%pid,
            "thorough_cmd":"/verif/bin/symgo check %s --tier thorough"%pid,
            "evidence_file":"/verif/evidence/%s.json"%pid,
            "replay_cmd_template":"/verif/bin/symgo replay {path}",
            "engine":"symgo",
            "level_claimed":{"category":"other","text":c["text"],"design_ref":c.get("design_ref","DESIGN.md §5 "+pid)},
            "level_note":c["note"],
            "technique":c.get("technique","bounded symbolic execution of the go/ssa code with SMT (z3/cvc5) deciding branches and assertions; counterexamples replayed natively")})
    else:
        na=json.load(open('/verif/tools/manifest_na.json')).get(pid,"check not built yet (build phase in progress); see DESIGN.md")
        m["not_applicable"].append({"property_id":pid,"reason":na})
json.dump(m,open('/verif/MANIFEST.json','w'),indent=1)
print("checks:",len(m["checks"]),"n/a:",len(m["not_applicable"]))

#!/bin/bash
# usage: seedcheck.sh <dir with patch.diff demo_test.go> : applies patch to a scratch worktree of /repo HEAD, runs demo with and without.
export GOFLAGS=-mod=mod GOPROXY=off GOSUMDB=off GOTOOLCHAIN=local
D=$1
W=$(mktemp -d /tmp/seedwt.XXXXXX)
git -C /repo worktree add --detach $W HEAD >/dev/null 2>&1 || exit 2
trap 'git -C /repo worktree remove --force $W >/dev/null 2>&1; rm -rf $W' EXIT
place=$(head -1 $D/demo_test.go | grep -o "engine" | head -1)
dest=$W; [ "$place" = "engine" ] && grep -q "^package engine" $D/demo_test.go && dest=$W/engine
cp $D/demo_test.go $dest/zz_seed_demo_test.go
cd $W
echo "== without patch"; (cd $dest && go test -vet=off -count=1 -run 'Test.*(C[0-9][0-9]|Demo|Seed)' . 2>&1 | tail -3)
git apply $D/patch.diff || { echo "PATCH DOES NOT APPLY"; exit 3; }
echo "== with patch"; (cd $dest && go test -vet=off -count=1 -run 'Test.*(C[0-9][0-9]|Demo|Seed)' . 2>&1 | tail -3)
rm -f $dest/zz_seed_demo_test.go
echo "== suite with patch"; go test -vet=off -count=1 ./... 2>&1 | grep -E "^(ok|FAIL|---)" | head

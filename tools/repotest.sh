#!/bin/bash
# Runs the repository's test suite (guard off). The engine package is run as an unprivileged user because
# TestOpen/..._cannot_be_opened expects a permission error that root never gets.
set -u
export GOFLAGS=-mod=mod GOPROXY=off GOSUMDB=off GOTOOLCHAIN=local
cd /repo || exit 2
T=$(mktemp -d /tmp/repotest.XXXXXX)
trap 'rm -rf "$T"' EXIT
rc=0
go test -vet=off -count=1 . ./cmd/... 2>&1 | tail -5 || rc=1
go test -c -vet=off -o "$T/engine.test" ./engine || exit 1
chmod -R a+rx "$T"
( cd /repo/engine && setpriv --reuid=65534 --regid=65534 --clear-groups env HOME=/tmp TMPDIR=/tmp "$T/engine.test" -test.count=1 2>&1 | tail -5 )
exit ${PIPESTATUS[0]}

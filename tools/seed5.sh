#!/bin/bash
# seed5.sh <Cxx> : confirm /tmp/seedout5/Cxx with seedcheck, store as /verif/seeded/Cxx-5, run the quick check against it on a scratch worktree
P=$1
D=/tmp/seedout5/$P
[ -f $D/patch.diff ] || { echo "$P: no patch"; exit 2; }
/verif/tools/seedcheck.sh $D > /tmp/seedout5/$P.check 2>&1
python3 /verif/tools/seedstore.py $P-5 $D $P > /dev/null
B=/verif/bin/symgo; [ -x /verif/bin/symgo.new ] && B=/verif/bin/symgo.new
timeout 3000 /verif/tools/seedrun2.sh $P-5 quick $B

#!/usr/bin/env python3
# seedstore.py <name> <srcdir> <property> : stores a confirmed seeded change under /verif/seeded/<name>/
import sys,json,os,shutil,subprocess
name,src,prop=sys.argv[1:4]
dst='/verif/seeded/'+name
os.makedirs(dst,exist_ok=True)
shutil.copy(src+'/patch.diff',dst+'/patch.diff')
shutil.copy(src+'/demo_test.go',dst+'/demo_test.go')
m=json.load(open(src+'/meta.json'))
head=subprocess.check_output(['git','-C','/repo','rev-parse','--short','HEAD']).decode().strip()
meta={"property":prop,"breaks":m.get('summary'),"needs":m.get('needs'),"files":m.get('files'),
      "author":"independent sub-agent given only the property text and a scratch worktree",
      "confirmed_on_repo_commit":head,
      "what_i_ran":["tools/seedcheck.sh <dir>: scratch worktree of /repo HEAD; demo passes without the patch, fails with it; `go test ./...` with the patch passes (only TestOpen/..._cannot_be_opened fails, as it does on the unchanged tree when run as root)"]}
json.dump(meta,open(dst+'/meta.json','w'),indent=1)
print('stored',dst)

#!/bin/bash
# compile the harness overlay natively (fast syntax/type check of /verif/harness)
export GOFLAGS=-mod=mod GOPROXY=off GOSUMDB=off GOTOOLCHAIN=local
T=$(mktemp -d /tmp/bc.XXXXXX); trap 'rm -rf $T' EXIT
python3 - "$T" <<'PY'
import sys,glob,json,os
T=sys.argv[1]
repl={}
for pkg,d in (('engine','/repo/engine'),('prolog','/repo')):
    fs=glob.glob('/verif/harness/%s/*.go'%pkg)
    if not fs: continue
    repl[d+'/zz_verif_api.go']='/verif/harness/common/api_%s.go.tmpl'%pkg
    for f in fs: repl[d+'/zz_verif_'+os.path.basename(f)]=f
json.dump({'Replace':repl},open(os.path.join(T,'ov.json'),'w'))
PY
cd /repo && go build -tags verif -overlay $T/ov.json ./... 2>&1 | head -${1:-30}

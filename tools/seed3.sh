#!/bin/bash
# seed3.sh <Cxx> : confirm /tmp/seedout3/Cxx with seedcheck, store as /verif/seeded/Cxx-3, run the quick check against it
P=$1
D=/tmp/seedout3/$P
[ -f $D/patch.diff ] || { echo "$P: no patch"; exit 2; }
/verif/tools/seedcheck.sh $D > /tmp/seedout3/$P.check 2>&1
tail -12 /tmp/seedout3/$P.check | cut -c1-200
python3 /verif/tools/seedstore.py $P-3 $D $P
timeout 3000 /verif/tools/seedrun.sh $P-3 quick

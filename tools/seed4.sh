#!/bin/bash
# seed3.sh <Cxx> : confirm /tmp/seedout4/Cxx with seedcheck, store as /verif/seeded/Cxx-4, run the quick check against it
P=$1
D=/tmp/seedout4/$P
[ -f $D/patch.diff ] || { echo "$P: no patch"; exit 2; }
/verif/tools/seedcheck.sh $D > /tmp/seedout4/$P.check 2>&1
tail -12 /tmp/seedout4/$P.check | cut -c1-200
python3 /verif/tools/seedstore.py $P-4 $D $P
timeout 3000 /verif/tools/seedrun.sh $P-4 quick

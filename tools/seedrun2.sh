#!/bin/bash
# seedrun2.sh <seeddir-or-name> [tier] [symgo-binary]: like seedrun.sh, but on a scratch worktree of /repo HEAD (via SYMGO_REPO),
# so that /repo is not touched and several seeds can be tested while other checks run.
S=$1; T=${2:-quick}; BIN=${3:-/verif/bin/symgo}
D=$S; [ -d "$D" ] || D=/verif/seeded/$S
P=$(python3 -c "import json;print(json.load(open('$D/meta.json'))['property'])")
W=$(mktemp -d /tmp/seedwt.XXXXXX); O=$(mktemp -d /tmp/seedo.XXXXXX)
git -C /repo worktree add --detach $W HEAD >/dev/null 2>&1 || { echo "worktree failed"; exit 2; }
trap 'git -C /repo worktree remove --force $W >/dev/null 2>&1; rm -rf $W $O' EXIT
git -C $W apply $D/patch.diff || { echo "$(basename $D): PATCH DOES NOT APPLY"; exit 3; }
out=$(SYMGO_REPO=$W SYMGO_OUT=$O $BIN check $P --tier $T 2>&1); rc=$?
nv=$(echo "$out" | grep -c "^VIOLATION")
echo "$(basename $D) property=$P tier=$T exit=$rc violations=$nv :: $(echo "$out" | grep "^counterexample\|^INCONCL\|^UNCONF" | head -2 | cut -c1-170 | tr '\n' '|')"
